package c17

import (
	"fmt"
	"sort"
	"strings"
	"testing"

	"github.com/codelaboratoryltd/bng/pkg/pool"
	"pgregory.net/rapid"

	"bngverif/internal/vstat"
)

func owners(p *pool.PeerPool, subs []string) []string {
	out := make([]string, len(subs))
	for i, s := range subs {
		out[i] = p.GetOwner(s)
	}
	return out
}

func healthyOwners(p *pool.PeerPool, subs []string) []string {
	out := make([]string, len(subs))
	for i, s := range subs {
		out[i] = p.VerifHealthyOwner(s)
	}
	return out
}

// TestPropMinimalDisruption: at every node x, removing a peer p != x (or marking it unhealthy, for every
// health vector) changes the owner only of subscribers p owned; the new owner is a remaining / healthy
// member; re-adding or recovery restores the previous owners; all nodes that are themselves healthy agree
// on the effective owner, which is the first healthy entry of the ranked fallback list.
func TestPropMinimalDisruption(t *testing.T) {
	vstat.Checks(1500, 40000)
	rapid.Check(t, func(rt *rapid.T) {
		ps := genPeerSet(2, 8).Draw(rt, "peers")
		ids := ps.ids
		n := len(ids)
		subs := genSubs(ids, 6, 14).Draw(rt, "subs")
		// health vector: bit i set = ids[i] is unhealthy (as seen by everybody else)
		mask := rapid.IntRange(0, (1<<n)-1).Draw(rt, "unhealthyMask")
		unhealthy := map[string]bool{}
		for i, id := range ids {
			if mask&(1<<i) != 0 {
				unhealthy[id] = true
			}
		}
		ownedByRemoved, ownedByUnhealthy := false, false
		agreed := map[string]string{} // subscriber -> effective owner computed by the first healthy node
		for xi, x := range ids {
			list := shuffle(rt, ids)
			p := newPool(rt, x, list, "")
			before := owners(p, subs)
			for _, pid := range ids {
				if pid == x {
					continue // a node does not remove itself; the statement's law is evaluated at every node != p
				}
				p.RemovePeer(pid)
				after := owners(p, subs)
				rest := without(ids, pid)
				for i, s := range subs {
					switch {
					case before[i] != pid && after[i] != before[i]:
						if vstat.Fail(rt, "C17/remove/disrupts-others", "node %q: removing %q changed the owner of %q from %q to %q although %q did not own it; peer set %s", x, pid, s, before[i], after[i], pid, q(ids)) {
							return
						}
					case before[i] == pid:
						ownedByRemoved = true
						if after[i] == pid || !contains(rest, after[i]) {
							if vstat.Fail(rt, "C17/remove/new-owner-invalid", "node %q: after removing %q the owner of %q is %q (remaining set %s)", x, pid, s, after[i], q(rest)) {
								return
							}
						}
					}
					r := p.VerifRanked(s)
					if !sameSet(r, rest) || r[0] != after[i] {
						if vstat.Fail(rt, "C17/ranked/after-remove", "node %q after removing %q: ranked list for %q is %s, owner %q, remaining set %s", x, pid, s, q(r), after[i], q(rest)) {
							return
						}
					}
				}
				p.AddPeer(pid)
				again := owners(p, subs)
				for i, s := range subs {
					if again[i] != before[i] {
						if vstat.Fail(rt, "C17/readd/not-restored", "node %q: after removing and re-adding %q the owner of %q is %q, was %q", x, pid, s, again[i], before[i]) {
							return
						}
					}
				}
			}

			// health vector as seen by x: x itself is always eligible ("local node always eligible")
			eff := map[string]bool{}
			for id := range unhealthy {
				if id != x {
					eff[id] = true
					p.VerifSetPeerHealth(id, false)
				}
			}
			ho := healthyOwners(p, subs)
			for i, s := range subs {
				if eff[ho[i]] || !contains(ids, ho[i]) {
					if vstat.Fail(rt, "C17/health/owner-unhealthy", "node %q with unhealthy peers %v: effective owner of %q is %q", x, keys(eff), s, ho[i]) {
						return
					}
				}
				if !eff[before[i]] && ho[i] != before[i] {
					if vstat.Fail(rt, "C17/health/disrupts-others", "node %q: marking %v unhealthy changed the owner of %q from %q to %q although its owner is healthy", x, keys(eff), s, before[i], ho[i]) {
						return
					}
				}
				if eff[before[i]] {
					ownedByUnhealthy = true
				}
				if want, ok := firstNotIn(p.VerifRanked(s), eff); ok && ho[i] != want {
					if vstat.Fail(rt, "C17/health/not-first-healthy-in-ranked", "node %q, unhealthy %v: effective owner of %q is %q but the ranked fallback list %s gives %q", x, keys(eff), s, ho[i], q(p.VerifRanked(s)), want) {
						return
					}
				}
				if !unhealthy[x] { // nodes that everybody considers healthy share one view of the cluster
					if prev, ok := agreed[s]; ok && prev != ho[i] {
						if vstat.Fail(rt, "C17/health/nodes-disagree", "unhealthy set %v: healthy node %q computes effective owner %q for %q, an earlier healthy node computed %q", keys(unhealthy), x, ho[i], s, prev) {
							return
						}
					}
					agreed[s] = ho[i]
				}
			}
			// one more peer fails, then recovers
			for _, pid := range ids {
				if pid == x || eff[pid] {
					continue
				}
				p.VerifSetPeerHealth(pid, false)
				ho2 := healthyOwners(p, subs)
				for i, s := range subs {
					if ho[i] != pid && ho2[i] != ho[i] {
						if vstat.Fail(rt, "C17/health/disrupts-others", "node %q: marking %q unhealthy (already unhealthy: %v) changed the owner of %q from %q to %q", x, pid, keys(eff), s, ho[i], ho2[i]) {
							return
						}
					}
					if ho[i] == pid && (ho2[i] == pid || eff[ho2[i]] || !contains(ids, ho2[i])) {
						if vstat.Fail(rt, "C17/health/owner-unhealthy", "node %q: after %q failed the owner of %q is %q (unhealthy: %v)", x, pid, s, ho2[i], keys(eff)) {
							return
						}
					}
				}
				p.VerifSetPeerHealth(pid, true)
				ho3 := healthyOwners(p, subs)
				for i, s := range subs {
					if ho3[i] != ho[i] {
						if vstat.Fail(rt, "C17/health/recovery-not-restored", "node %q: after %q recovered the owner of %q is %q, was %q", x, pid, s, ho3[i], ho[i]) {
							return
						}
					}
				}
			}
			// GetOwner (the configured owner) is independent of health
			now := owners(p, subs)
			for i := range subs {
				if now[i] != before[i] {
					if vstat.Fail(rt, "C17/health/changes-getowner", "node %q: GetOwner(%q) changed from %q to %q by health changes alone", x, subs[i], before[i], now[i]) {
						return
					}
				}
			}
			_ = xi
		}
		cls := []string{sizeClass(n), "style:" + ps.style, fmt.Sprintf("unhealthy:%d", len(unhealthy))}
		if ps.collision {
			cls = append(cls, "tie:fnv-collision-pair")
		}
		if ownedByRemoved {
			cls = append(cls, "removed-peer-owned-a-subscriber")
		}
		if ownedByUnhealthy {
			cls = append(cls, "unhealthy-peer-owned-a-subscriber")
		}
		nt := n >= 3 && ownedByRemoved
		if nt {
			cls = append(cls, "nt:>=3-peers-remote-owner")
		}
		vstat.Case(nt, vstat.Hash("disrupt", strings.Join(ids, "\x00"), strings.Join(subs, "\x00"), mask), func() any {
			return map[string]any{"test": "disruption", "peers": ids, "subs": subs, "unhealthy": keys(unhealthy)}
		}, cls...)
	})
}

func keys(m map[string]bool) []string {
	out := make([]string, 0, len(m))
	for k, v := range m {
		if v {
			out = append(out, k)
		}
	}
	sort.Strings(out)
	return out
}

// TestPropMembershipHistory: one node lives through a generated history of AddPeer / RemovePeer / health
// changes.  After every step its view must equal the view of a node freshly configured with the resulting
// set (history independence = "every order in which peers are configured or added"), equal the view of
// every other healthy member, and differ from the previous step only as the minimal-disruption law allows.
func TestPropMembershipHistory(t *testing.T) {
	vstat.Checks(1500, 40000)
	rapid.Check(t, func(rt *rapid.T) {
		ps := genPeerSet(3, 8).Draw(rt, "universe")
		uni := ps.ids
		self := uni[0]
		subs := genSubs(uni, 6, 12).Draw(rt, "subs")
		k := rapid.IntRange(0, len(uni)-1).Draw(rt, "initial")
		member := map[string]bool{self: true}
		sick := map[string]bool{}
		for _, id := range uni[1 : 1+k] {
			member[id] = true
		}
		p := newPool(rt, self, shuffle(rt, uni[1:1+k]), "")
		var hist []string
		steps, removals, maxSize := 0, 0, len(member)
		dead := false
		cur := func() []string { return keys(member) }
		prevOwner := healthyOwners(p, subs)
		check := func(rt *rapid.T, what string, law string, changed string) {
			set := cur()
			fresh := newPool(rt, self, set, "")
			for id, v := range sick {
				if v && member[id] {
					fresh.VerifSetPeerHealth(id, false)
				}
			}
			eff := map[string]bool{}
			for id, v := range sick {
				if v && member[id] && id != self {
					eff[id] = true
				}
			}
			for i, s := range subs {
				o, fo := p.GetOwner(s), fresh.GetOwner(s)
				if o != fo {
					dead = vstat.Fail(rt, "C17/history/owner-differs-from-fresh-config", "after %s: node %q computes owner %q for %q, a node freshly configured with %s computes %q\nhistory: %s", what, self, o, s, q(set), fo, strings.Join(hist, "; "))
					return
				}
				r := p.VerifRanked(s)
				if !sameSet(r, set) || r[0] != o {
					dead = vstat.Fail(rt, "C17/history/ranked-invalid", "after %s: ranked list for %q is %s, owner %q, peer set %s\nhistory: %s", what, s, q(r), o, q(set), strings.Join(hist, "; "))
					return
				}
				h, fh := p.VerifHealthyOwner(s), fresh.VerifHealthyOwner(s)
				if h != fh {
					dead = vstat.Fail(rt, "C17/history/effective-owner-differs-from-fresh-config", "after %s: node %q serves %q from %q, a freshly configured node (set %s, unhealthy %v) from %q\nhistory: %s", what, self, s, h, q(set), keys(eff), fh, strings.Join(hist, "; "))
					return
				}
				if eff[h] || !member[h] {
					dead = vstat.Fail(rt, "C17/history/effective-owner-invalid", "after %s: effective owner of %q is %q (members %s, unhealthy %v)\nhistory: %s", what, s, h, q(set), keys(eff), strings.Join(hist, "; "))
					return
				}
				if law == "none" && h != prevOwner[i] {
					dead = vstat.Fail(rt, "C17/history/noop-changes-owner", "%s must not change anything but the effective owner of %q moved from %q to %q\nhistory: %s", what, s, prevOwner[i], h, strings.Join(hist, "; "))
					return
				}
				if law == "leave" && prevOwner[i] != changed && h != prevOwner[i] {
					dead = vstat.Fail(rt, "C17/history/disrupts-others", "%s changed the effective owner of %q from %q to %q\nhistory: %s", what, s, prevOwner[i], h, strings.Join(hist, "; "))
					return
				}
				if law == "join" && h != changed && h != prevOwner[i] {
					// a peer joined/recovered: ownership may only move TO that peer (mirror image of the removal law)
					dead = vstat.Fail(rt, "C17/history/join-disrupts-others", "%s changed the effective owner of %q from %q to %q\nhistory: %s", what, s, prevOwner[i], h, strings.Join(hist, "; "))
					return
				}
				prevOwner[i] = h
			}
			// another healthy member, configured in its own order, agrees
			for _, z := range set {
				if z == self || eff[z] {
					continue
				}
				other := newPool(rt, z, shuffle(rt, set), "")
				for id := range eff {
					other.VerifSetPeerHealth(id, false)
				}
				for _, s := range subs {
					if a, b := other.GetOwner(s), p.GetOwner(s); a != b {
						dead = vstat.Fail(rt, "C17/history/nodes-disagree", "after %s: node %q computes owner %q for %q, node %q computes %q\nhistory: %s", what, self, b, s, z, a, strings.Join(hist, "; "))
						return
					}
					if a, b := other.VerifHealthyOwner(s), p.VerifHealthyOwner(s); a != b {
						dead = vstat.Fail(rt, "C17/history/nodes-disagree-effective", "after %s (unhealthy %v): node %q serves %q from %q, node %q from %q\nhistory: %s", what, keys(eff), self, s, b, z, a, strings.Join(hist, "; "))
						return
					}
				}
				break // one witness per step keeps the cost linear
			}
		}
		check(rt, "construction", "init", "")
		rt.Repeat(map[string]func(*rapid.T){
			"add": func(rt *rapid.T) {
				if dead {
					rt.Skip("known finding")
				}
				id := rapid.SampledFrom(uni).Draw(rt, "id")
				was, wasSick := member[id], sick[id]
				p.AddPeer(id)
				member[id] = true
				healthy := rapid.Bool().Draw(rt, "healthy") || id == self
				if id != self {
					// the probe loop decides the health of a (re)joined peer; make it explicit
					p.VerifSetPeerHealth(id, healthy)
					sick[id] = !healthy
				}
				hist = append(hist, fmt.Sprintf("AddPeer(%q) healthy=%v", id, healthy))
				steps++
				if len(cur()) > maxSize {
					maxSize = len(cur())
				}
				law := "none"
				switch {
				case id == self:
				case !was && healthy, was && wasSick && healthy:
					law = "join"
				case was && !wasSick && !healthy:
					law = "leave"
				}
				check(rt, hist[len(hist)-1], law, id)
			},
			"remove": func(rt *rapid.T) {
				if dead {
					rt.Skip("known finding")
				}
				id := rapid.SampledFrom(uni[1:]).Draw(rt, "id")
				p.RemovePeer(id)
				delete(member, id)
				hist = append(hist, fmt.Sprintf("RemovePeer(%q)", id))
				steps++
				removals++
				check(rt, hist[len(hist)-1], "leave", id)
			},
			"health": func(rt *rapid.T) {
				if dead {
					rt.Skip("known finding")
				}
				id := rapid.SampledFrom(uni[1:]).Draw(rt, "id")
				healthy := rapid.Bool().Draw(rt, "healthy")
				wasSick := sick[id]
				p.VerifSetPeerHealth(id, healthy)
				sick[id] = !healthy
				hist = append(hist, fmt.Sprintf("health(%q)=%v", id, healthy))
				steps++
				law := "none"
				switch {
				case member[id] && wasSick && healthy:
					law = "join"
				case member[id] && !wasSick && !healthy:
					law = "leave"
				}
				check(rt, hist[len(hist)-1], law, id)
			},
		})
		cls := []string{"style:" + ps.style, fmt.Sprintf("maxsize:%d", maxSize)}
		if removals > 0 {
			cls = append(cls, "has-removal")
		}
		if ps.collision {
			cls = append(cls, "tie:fnv-collision-pair")
		}
		nt := maxSize >= 3 && steps >= 2
		if nt {
			cls = append(cls, "nt:>=3-peers-remote-owner")
		}
		vstat.Case(nt, vstat.Hash("history", strings.Join(uni, "\x00"), strings.Join(subs, "\x00"), strings.Join(hist, ";")), func() any {
			return map[string]any{"test": "history", "universe": uni, "subs": subs, "history": hist}
		}, cls...)
	})
}
