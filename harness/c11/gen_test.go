package c11

// gen_test.go: rapid generators for configurations, option lists, events and histories.
// Everything is drawn here, outside the synctest bubble.

import (
	"encoding/binary"
	"time"

	"pgregory.net/rapid"

	"bngverif/internal/vstat"
)

func pick(rt *rapid.T, label string, names []string, weights []int) string {
	tot := 0
	for _, w := range weights {
		tot += w
	}
	x := rapid.IntRange(0, tot-1).Draw(rt, label)
	for i, w := range weights {
		if x < w {
			return names[i]
		}
		x -= w
	}
	return names[len(names)-1]
}

// pickU is pick with an unbiased draw (rapid's integer generators favour small values, i.e. the first names;
// ten fair bits modulo the total are uniform enough).
func pickU(rt *rapid.T, label string, names []string, weights []int) string {
	tot := 0
	for _, w := range weights {
		tot += w
	}
	x := 0
	for _, b := range rapid.SliceOfN(rapid.Bool(), 10, 10).Draw(rt, label) {
		x <<= 1
		if b {
			x |= 1
		}
	}
	x %= tot
	for i, w := range weights {
		if x < w {
			return names[i]
		}
		x -= w
	}
	return names[len(names)-1]
}

func u16(v uint16) []byte { b := make([]byte, 2); binary.BigEndian.PutUint16(b, v); return b }
func u32(v uint32) []byte { b := make([]byte, 4); binary.BigEndian.PutUint32(b, v); return b }
func u64(v uint64) []byte { b := make([]byte, 8); binary.BigEndian.PutUint64(b, v); return b }

func genConfig(rt *rapid.T, p proto) config {
	c := config{P: p}
	c.RT = rapid.SampledFrom([]time.Duration{3 * time.Second, time.Second, 500 * time.Millisecond}).Draw(rt, "restartTimer")
	c.MaxConf = rapid.IntRange(1, 4).Draw(rt, "maxConfigure")
	c.MaxTerm = c.MaxConf
	switch p {
	case pLCP:
		c.MaxTerm = rapid.IntRange(1, 3).Draw(rt, "maxTerminate")
		if vstat.IsListed("C11/lcp/terminate-retransmissions/too-many") && rapid.IntRange(0, 9).Draw(rt, "steerTerm") < 6 {
			// steer most cases around the listed finding (terminate phase counts MaxConfigure):
			// it cannot be seen when MaxTerminate <= MaxConfigure <= MaxTerminate+1
			c.MaxTerm = c.MaxConf
			if c.MaxTerm > 3 {
				c.MaxTerm = 3
			}
		}
		c.Magic = rapid.Uint32Range(1, 0xffffffff).Draw(rt, "magic")
		c.MRU = uint16(rapid.SampledFrom([]int{1492, 1492, 1400, 576}).Draw(rt, "mru"))
		c.CHAP = rapid.Bool().Draw(rt, "chap")
		c.PFC = rapid.IntRange(0, 3).Draw(rt, "pfc") == 0
		c.ACFC = rapid.IntRange(0, 3).Draw(rt, "acfc") == 0
	case pIPCP:
		c.AddrMode = pick(rt, "addrMode", []string{"static", "pool", "none", "exhausted"}, []int{40, 35, 15, 10})
		c.Static = [4]byte{100, 64, byte(rapid.IntRange(0, 255).Draw(rt, "s2")), byte(rapid.IntRange(1, 254).Draw(rt, "s3"))}
		c.DNS1 = rapid.Bool().Draw(rt, "dns1")
		c.DNS2 = rapid.Bool().Draw(rt, "dns2")
	case pIPV6CP:
		c.IfID = rapid.Uint64Range(1, ^uint64(0)).Draw(rt, "ifid")
	}
	return c
}

// ---- option grammar: acceptable / nak-able / reject-able, per protocol.  The category is the
// generator's intent only; the oracle never reads it.

func genOpt(rt *rapid.T, c config, cat string) optSpec {
	anyBytes := func(n int) []byte { return rapid.SliceOfN(rapid.Byte(), n, n).Draw(rt, "bytes") }
	switch c.P {
	case pLCP:
		switch cat {
		case "ok":
			switch rapid.IntRange(0, 3).Draw(rt, "lcpOk") {
			case 0:
				return optSpec{Type: 1, Data: u16(uint16(rapid.IntRange(64, 1492).Draw(rt, "mru"))), Cat: cat}
			case 1:
				m := rapid.Uint32Range(1, 0xffffffff).Draw(rt, "peerMagic")
				if m == c.Magic {
					m ^= 1
					if m == 0 {
						m = 2
					}
				}
				return optSpec{Type: 5, Data: u32(m), Cat: cat}
			case 2:
				return optSpec{Type: 7, Cat: cat}
			default:
				return optSpec{Type: 8, Cat: cat}
			}
		case "nak":
			switch rapid.IntRange(0, 3).Draw(rt, "lcpNak") {
			case 0:
				return optSpec{Type: 1, Data: u16(uint16(rapid.IntRange(0, 63).Draw(rt, "mruLow"))), Cat: cat}
			case 1:
				return optSpec{Type: 1, Data: u16(uint16(rapid.IntRange(1493, 65535).Draw(rt, "mruHigh"))), Cat: cat}
			case 2:
				return optSpec{Type: 5, Data: u32(0), Cat: cat}
			default:
				return optSpec{Type: 5, Sym: symLocalMagic, Cat: cat} // looped-back link
			}
		default: // rej
			switch rapid.IntRange(0, 3).Draw(rt, "lcpRej") {
			case 0:
				return optSpec{Type: 3, Data: rapid.SampledFrom([][]byte{{0xc0, 0x23}, {0xc2, 0x23, 5}, {0xc0}, {}}).Draw(rt, "auth"), Cat: cat}
			case 1:
				return optSpec{Type: rapid.SampledFrom([]byte{0, 2, 4, 6, 9, 13, 17, 255}).Draw(rt, "unknownType"), Data: anyBytes(rapid.IntRange(0, 6).Draw(rt, "n")), Cat: cat}
			default:
				ty := rapid.SampledFrom([]byte{1, 5, 7, 8}).Draw(rt, "badLenType")
				n := rapid.SampledFrom([]int{0, 1, 3, 5, 6}).Draw(rt, "badLen")
				if (ty == 1 && n == 2) || (ty == 5 && n == 4) || ((ty == 7 || ty == 8) && n == 0) {
					n = 3
				}
				return optSpec{Type: ty, Data: anyBytes(n), Cat: cat}
			}
		}
	case pIPCP:
		switch cat {
		case "ok":
			switch rapid.IntRange(0, 3).Draw(rt, "ipcpOk") {
			case 0, 1:
				if c.AddrMode == "pool" && rapid.IntRange(0, 3).Draw(rt, "askReleased") == 0 {
					// the address this session held before its last Down (a foreign one if there was none)
					return optSpec{Type: 3, Sym: symReleased, Cat: "nak"}
				}
				return optSpec{Type: 3, Sym: symAssigned, Cat: cat}
			case 2:
				return optSpec{Type: 129, Data: []byte{8, 8, 8, byte(rapid.IntRange(1, 8).Draw(rt, "d"))}, Cat: cat}
			default:
				return optSpec{Type: 131, Data: []byte{1, 1, 1, byte(rapid.IntRange(1, 8).Draw(rt, "d"))}, Cat: cat}
			}
		case "nak":
			switch rapid.IntRange(0, 5).Draw(rt, "ipcpNak") {
			case 5:
				return optSpec{Type: 3, Sym: symNear, Cat: cat}
			case 0, 1:
				return optSpec{Type: 3, Data: []byte{0, 0, 0, 0}, Cat: cat}
			case 2:
				return optSpec{Type: 3, Data: []byte{192, 168, byte(rapid.IntRange(0, 3).Draw(rt, "a")), byte(rapid.IntRange(1, 254).Draw(rt, "b"))}, Cat: cat}
			case 3:
				return optSpec{Type: 3, Sym: symReleased, Cat: cat}
			default:
				return optSpec{Type: rapid.SampledFrom([]byte{129, 131}).Draw(rt, "dns"), Data: []byte{0, 0, 0, 0}, Cat: cat}
			}
		default:
			switch rapid.IntRange(0, 2).Draw(rt, "ipcpRej") {
			case 0:
				return optSpec{Type: 2, Data: []byte{0x00, 0x2d, 0x0f, 0x01}, Cat: cat} // VJ compression
			case 1:
				return optSpec{Type: rapid.SampledFrom([]byte{1, 4, 130, 132, 0, 255}).Draw(rt, "unknownType"), Data: anyBytes(rapid.IntRange(0, 8).Draw(rt, "n")), Cat: cat}
			default:
				return optSpec{Type: rapid.SampledFrom([]byte{3, 129, 131}).Draw(rt, "badLenType"), Data: anyBytes(rapid.SampledFrom([]int{0, 2, 3, 5, 8}).Draw(rt, "badLen")), Cat: cat}
			}
		}
	default: // IPV6CP
		switch cat {
		case "ok":
			id := rapid.Uint64Range(1, ^uint64(0)).Draw(rt, "peerIfID")
			if id == c.IfID {
				id ^= 1
				if id == 0 {
					id = 2
				}
			}
			return optSpec{Type: 1, Data: u64(id), Cat: cat}
		case "nak":
			if rapid.Bool().Draw(rt, "zero") {
				return optSpec{Type: 1, Data: u64(0), Cat: cat}
			}
			return optSpec{Type: 1, Sym: symLocalIfID, Cat: cat}
		default:
			if rapid.Bool().Draw(rt, "unknown") {
				return optSpec{Type: rapid.SampledFrom([]byte{2, 3, 0, 255}).Draw(rt, "unknownType"), Data: anyBytes(rapid.IntRange(0, 8).Draw(rt, "n")), Cat: cat}
			}
			return optSpec{Type: 1, Data: anyBytes(rapid.SampledFrom([]int{0, 4, 7, 9}).Draw(rt, "badLen")), Cat: cat}
		}
	}
}

// genOkSet draws a set of acceptable options without repeating a type.
func genOkSet(rt *rapid.T, c config, min int) []optSpec {
	var out []optSpec
	seen := map[byte]bool{}
	n := rapid.IntRange(min, 3).Draw(rt, "nOk")
	for i := 0; i < n; i++ {
		o := genOpt(rt, c, "ok")
		if seen[o.Type] {
			continue
		}
		seen[o.Type] = true
		out = append(out, o)
	}
	return out
}

func insert(rt *rapid.T, s []optSpec, o optSpec) []optSpec {
	i := rapid.IntRange(0, len(s)).Draw(rt, "pos")
	s = append(s, optSpec{})
	copy(s[i+1:], s[i:])
	s[i] = o
	return s
}

// genRCR draws a Configure-Request.  shape "" = draw one.
func genRCR(rt *rapid.T, c config, shape string) event {
	e := event{K: kRCR, ID: rapid.Byte().Draw(rt, "id")}
	if shape == "" {
		shape = pick(rt, "rcrShape", []string{"ack", "nak", "rej", "mixed", "empty", "malformed", "dup"}, []int{50, 12, 10, 8, 4, 10, 6})
	}
	noAddr := c.P == pIPCP && (c.AddrMode == "none" || c.AddrMode == "exhausted")
	switch shape {
	case "ack":
		e.Opts = genOkSet(rt, c, 1)
	case "nak":
		e.Opts = insert(rt, genOkSet(rt, c, 0), genOpt(rt, c, "nak"))
	case "rej":
		e.Opts = insert(rt, genOkSet(rt, c, 0), genOpt(rt, c, "rej"))
	case "mixed":
		e.Opts = genOkSet(rt, c, 0)
		for i, n := 0, rapid.IntRange(2, 3).Draw(rt, "nBad"); i < n; i++ {
			e.Opts = insert(rt, e.Opts, genOpt(rt, c, rapid.SampledFrom([]string{"nak", "rej"}).Draw(rt, "cat")))
		}
	case "empty":
	case "dup":
		o := genOpt(rt, c, rapid.SampledFrom([]string{"ok", "ok", "nak"}).Draw(rt, "cat"))
		e.Opts = insert(rt, insert(rt, genOkSet(rt, c, 0), o), genOpt(rt, c, "ok"))
		e.Opts = insert(rt, e.Opts, o)
	case "malformed":
		e.Opts = genOkSet(rt, c, 0)
		switch pick(rt, "malformation", []string{"tail1", "shortlen", "overrun", "hdrpad", "hdrshort", "hdrover"}, []int{3, 2, 2, 3, 1, 1}) {
		case "tail1":
			e.Tail = tailOneByte
		case "shortlen":
			e.Tail = tailShortLen
		case "overrun":
			e.Tail = tailOverrun
		case "hdrpad":
			e.Hdr = hdrPadded
		case "hdrshort":
			e.Hdr = hdrShort
		default:
			e.Hdr = hdrOverrun
		}
	}
	if noAddr && vstat.IsListed("C11/ipcp/ack-unassigned-address") {
		// steer around the listed finding (any non-zero address is acknowledged when none is assigned):
		// keep one request in ten that still asks for an address
		if rapid.IntRange(0, 9).Draw(rt, "keepAddr") != 0 {
			kept := e.Opts[:0:0]
			for _, o := range e.Opts {
				if !(o.Type == 3 && (o.Sym != symNone || (len(o.Data) == 4 && (o.Data[0]|o.Data[1]|o.Data[2]|o.Data[3]) != 0))) {
					kept = append(kept, o)
				}
			}
			e.Opts = kept
		}
	}
	return e
}

func genReplyEvent(rt *rapid.T, c config, k kind) event {
	e := event{K: k}
	// identifier: our latest Configure-Request 40 %, another packet we sent (any code) 40 % (of which 10 points are
	// earlier Configure-Requests), fresh 20 %
	e.IDMode = map[string]int{"match": idMatch, "other": idOther, "stale": idStale, "raw": idRaw}[pickU(rt, "idMode", []string{"match", "other", "stale", "raw"}, []int{40, 30, 10, 20})]
	e.ID = rapid.Byte().Draw(rt, "id")
	switch k {
	case kRCA:
		e.EchoOurs = rapid.IntRange(0, 4).Draw(rt, "echo") != 0
		if !e.EchoOurs {
			e.Opts = genOkSet(rt, c, 0)
		}
	case kRCN:
		// suggestions the implementation may or may not take
		switch c.P {
		case pLCP:
			e.Opts = []optSpec{rapid.SampledFrom([]optSpec{
				{Type: 1, Data: u16(1400)}, {Type: 1, Data: u16(9000)}, {Type: 3, Data: []byte{0xc2, 0x23, 5}}, {Type: 3, Data: []byte{0xc0, 0x23}},
				{Type: 5, Data: u32(0x01020304)}, {Type: 5, Data: []byte{1}}}).Draw(rt, "nakOpt")}
		case pIPCP:
			e.Opts = []optSpec{{Type: 3, Data: []byte{10, 0, 0, byte(rapid.IntRange(2, 9).Draw(rt, "x"))}}}
		default:
			e.Opts = []optSpec{{Type: 1, Data: u64(rapid.Uint64Range(1, 99).Draw(rt, "x"))}}
		}
		if rapid.IntRange(0, 9).Draw(rt, "nakMalformed") == 0 {
			e.Tail = rapid.SampledFrom([]int{tailOneByte, tailShortLen, tailOverrun}).Draw(rt, "tail")
		}
	case kRCJ:
		switch c.P {
		case pLCP:
			e.Opts = []optSpec{rapid.SampledFrom([]optSpec{{Type: 7}, {Type: 8}, {Type: 3, Data: []byte{0xc0, 0x23}}, {Type: 1, Data: u16(1492)}}).Draw(rt, "rejOpt")}
		case pIPCP:
			e.Opts = []optSpec{{Type: 3, Data: []byte{10, 0, 0, 1}}}
		default:
			e.Opts = []optSpec{{Type: 1, Data: u64(c.IfID)}}
		}
		if rapid.IntRange(0, 9).Draw(rt, "rejMalformed") == 0 {
			e.Tail = rapid.SampledFrom([]int{tailOneByte, tailShortLen, tailOverrun}).Draw(rt, "tail")
		}
	}
	return e
}

var evNames = []string{"Up", "Down", "Open", "Close", "TO", "Half", "RCR", "RCA", "RCN", "RCJ", "RTR", "RTA", "XJ", "PJ", "Echo", "Other", "Late", "Assign", "SendEcho", "SendPJ"}

// idFrom draws the source of the identifier of an incoming Terminate-Ack / Code-Reject / Echo-Reply: the matching
// request of ours 40 %, another packet we sent 40 %, fresh 20 %.
func idFrom(rt *rapid.T) int {
	return map[string]int{"request": fromRequest, "other": fromOther, "raw": fromRaw}[pickU(rt, "idFrom", []string{"request", "other", "raw"}, []int{40, 40, 20})]
}

func genEvent(rt *rapid.T, c config, allowLate bool) event {
	// "Other" (weight 6 for LCP) is mostly an unknown code, which LCP answers with a Code-Reject carrying an
	// identifier of its own; SendEcho / SendPJ make LCP originate Echo-Request / Protocol-Reject
	w := []int{5, 3, 5, 4, 11, 3, 24, 16, 5, 4, 6, 4, 2, 2, 3, 7, 5, 0, 8, 4}
	if !allowLate {
		w[16] = 0
	}
	if c.P == pIPCP && (c.AddrMode == "static" || c.AddrMode == "none") {
		w[17] = 2
	}
	if c.P != pLCP {
		// the NCP automata ignore codes 7.. and originate nothing but Configure- and Terminate-Requests; keep a little of it
		w[12], w[13], w[14], w[15] = 1, 1, 1, 2
		w[18], w[19] = 0, 0
	}
	switch pick(rt, "event", evNames, w) {
	case "Up":
		return event{K: kUp}
	case "Down":
		return event{K: kDown}
	case "Open":
		return event{K: kOpen}
	case "Close":
		return event{K: kClose}
	case "TO":
		return event{K: kTO}
	case "Half":
		return event{K: kHalf}
	case "RCR":
		return genRCR(rt, c, "")
	case "RCA":
		return genReplyEvent(rt, c, kRCA)
	case "RCN":
		return genReplyEvent(rt, c, kRCN)
	case "RCJ":
		return genReplyEvent(rt, c, kRCJ)
	case "RTR":
		return event{K: kRTR, ID: rapid.Byte().Draw(rt, "id"), Data: rapid.SliceOfN(rapid.Byte(), 0, 6).Draw(rt, "data")}
	case "RTA":
		return event{K: kRTA, ID: rapid.Byte().Draw(rt, "id"), IDFrom: idFrom(rt)}
	case "XJ":
		// Code-Reject carries a copy of the rejected packet: first byte is the rejected code
		code := rapid.SampledFrom([]byte{1, 1, 2, 3, 4, 5, 9, 12, 0}).Draw(rt, "rejectedCode")
		d := append([]byte{code}, rapid.SliceOfN(rapid.Byte(), 0, 5).Draw(rt, "rest")...)
		if rapid.IntRange(0, 7).Draw(rt, "emptyXJ") == 0 {
			d = nil
		}
		return event{K: kXJ, ID: rapid.Byte().Draw(rt, "id"), IDFrom: idFrom(rt), Data: d}
	case "PJ":
		pr := rapid.SampledFrom([]uint16{0xc021, 0x8021, 0x8057, 0x0021, 0xc023}).Draw(rt, "rejectedProto")
		d := append(u16(pr), rapid.SliceOfN(rapid.Byte(), 0, 4).Draw(rt, "rest")...)
		if rapid.IntRange(0, 7).Draw(rt, "shortPJ") == 0 {
			d = d[:1]
		}
		return event{K: kPJ, ID: rapid.Byte().Draw(rt, "id"), Data: d}
	case "Echo":
		n := rapid.SampledFrom([]int{4, 4, 4, 8, 12, 0, 2, 3}).Draw(rt, "echoLen")
		if n < 4 && vstat.IsListed("C11/lcp/panic/Echo-short") && rapid.IntRange(0, 3).Draw(rt, "keepShortEcho") != 0 {
			n = 4
		}
		return event{K: kEcho, ID: rapid.Byte().Draw(rt, "id"), Data: rapid.SliceOfN(rapid.Byte(), n, n).Draw(rt, "data")}
	case "Other":
		// 10 Echo-Reply, 11 Discard-Request; 12 (RFC 1570 Identification), 13 (Time-Remaining), 14 (RFC 1962 Reset-Request),
		// 0 and 200 are unknown to the automata: LCP answers them with a Code-Reject
		e := event{K: kOther, Code: rapid.SampledFrom([]byte{10, 11, 12, 12, 13, 14, 0, 200}).Draw(rt, "code"), ID: rapid.Byte().Draw(rt, "id"),
			Data: rapid.SliceOfN(rapid.Byte(), 0, 6).Draw(rt, "data")}
		if e.Code == 10 {
			e.IDFrom = idFrom(rt)
		}
		return e
	case "SendEcho":
		return event{K: kSendEcho}
	case "SendPJ":
		// an early packet of a protocol the session layer does not run (CCP, ECP, IPX, MPLS-CP, compressed datagram)
		return event{K: kSendPJ, Proto: rapid.SampledFrom([]uint16{0x80fd, 0x8053, 0x802b, 0x8281, 0x00fd}).Draw(rt, "proto"),
			Data: rapid.SliceOfN(rapid.Byte(), 0, 8).Draw(rt, "data")}
	case "Late":
		in := genEvent(rt, c, false)
		for in.K == kTO || in.K == kHalf {
			in = event{K: kRCA, IDMode: idMatch, EchoOurs: true}
		}
		return event{K: kLate, Inner: &in}
	default:
		return event{K: kAssign, IP: &[4]byte{100, 65, 0, byte(rapid.IntRange(1, 9).Draw(rt, "ip"))}}
	}
}

// genHistory draws one case: a configuration and an event history.
//
//	random : optional Open/Up prefix, then up to 18 weighted events
//	silent : Open and Up (either order), optionally some events that the peer might send before it dies, then silence
//	close  : full handshake to Opened, optional extras, Close, then silence
func genHistory(rt *rapid.T, p proto) (config, []event, string) {
	c := genConfig(rt, p)
	wShape := []int{60, 12, 12, 16}
	if p == pLCP {
		wShape = []int{45, 10, 10, 35} // LCP is the automaton that originates Code-Reject / Protocol-Reject / Echo-Request
	}
	shape := pickU(rt, "caseShape", []string{"random", "silent", "close", "xid"}, wShape)
	var evs []event
	start := func() {
		if rapid.Bool().Draw(rt, "openFirst") {
			evs = append(evs, event{K: kOpen}, event{K: kUp})
		} else {
			evs = append(evs, event{K: kUp}, event{K: kOpen})
		}
	}
	handshake := func() {
		rcr := genRCR(rt, c, "ack")
		rca := event{K: kRCA, IDMode: idMatch, EchoOurs: true}
		if rapid.Bool().Draw(rt, "rcrFirst") {
			evs = append(evs, rcr, rca)
		} else {
			evs = append(evs, rca, rcr)
		}
		// once the link is open the keep-alive originates Echo-Requests (LCP only)
		if p == pLCP && pickU(rt, "keepalive", []string{"no", "yes"}, []int{60, 40}) == "yes" {
			evs = append(evs, event{K: kSendEcho})
		}
	}
	switch shape {
	case "xid":
		// cross-code identifier confusion: the automaton is made to originate a packet that is NOT a Configure-Request
		// (Code-Reject for an unknown code, Protocol-Reject, Echo-Request; for the NCP automata, which originate nothing
		// else, a reply or a Terminate-Request), then the peer answers with THAT packet's identifier
		start()
		pre := pickU(rt, "xidPre", []string{"none", "rcr", "handshake"}, []int{40, 30, 30})
		switch pre {
		case "rcr":
			evs = append(evs, genRCR(rt, c, "ack"))
		case "handshake":
			handshake()
		}
		if p == pLCP {
			wTrig := []int{55, 45, 0}
			if pre == "handshake" {
				wTrig = []int{20, 20, 60} // an Echo-Request is only originated in Opened
			}
			switch pickU(rt, "xidTrigger", []string{"unknown", "sendpj", "sendecho"}, wTrig) {
			case "unknown":
				evs = append(evs, event{K: kOther, Code: rapid.SampledFrom([]byte{12, 13, 14, 0, 200}).Draw(rt, "code"), ID: rapid.Byte().Draw(rt, "id"),
					Data: rapid.SliceOfN(rapid.Byte(), 0, 6).Draw(rt, "data")})
			case "sendpj":
				evs = append(evs, event{K: kSendPJ, Proto: rapid.SampledFrom([]uint16{0x80fd, 0x8053, 0x802b}).Draw(rt, "proto"), Data: rapid.SliceOfN(rapid.Byte(), 0, 8).Draw(rt, "data")})
			default:
				evs = append(evs, event{K: kSendEcho})
			}
		} else {
			switch pickU(rt, "xidTrigger", []string{"rcr", "rtr", "close-open"}, []int{50, 25, 25}) {
			case "rcr":
				evs = append(evs, genRCR(rt, c, ""))
			case "rtr":
				evs = append(evs, event{K: kRTR, ID: rapid.Byte().Draw(rt, "id")}, event{K: kDown}, event{K: kUp})
			default:
				evs = append(evs, event{K: kClose}, event{K: kOpen}, event{K: kDown}, event{K: kUp})
			}
		}
		if rapid.IntRange(0, 4).Draw(rt, "xidHalf") == 0 {
			evs = append(evs, event{K: kHalf})
		}
		rp := genReplyEvent(rt, c, map[string]kind{"RCA": kRCA, "RCN": kRCN, "RCJ": kRCJ}[pickU(rt, "xidReply", []string{"RCA", "RCN", "RCJ"}, []int{70, 15, 15})])
		rp.IDMode, rp.ID = idOther, byte(rapid.SampledFrom([]int{0, 0, 0, 1}).Draw(rt, "xidWhich"))
		evs = append(evs, rp)
		if rapid.IntRange(0, 9).Draw(rt, "xidRCR") < 7 {
			evs = append(evs, genRCR(rt, c, "ack"))
		}
		for i, n := 0, rapid.IntRange(0, 3).Draw(rt, "extras"); i < n; i++ {
			evs = append(evs, genEvent(rt, c, true))
		}
	case "silent":
		start()
		if rapid.IntRange(0, 3).Draw(rt, "noise") == 0 {
			evs = append(evs, genEvent(rt, c, true))
		}
	case "close":
		start()
		handshake()
		for i, n := 0, rapid.IntRange(0, 2).Draw(rt, "extras"); i < n; i++ {
			evs = append(evs, genEvent(rt, c, true))
		}
		evs = append(evs, event{K: kClose})
	default:
		if rapid.IntRange(0, 9).Draw(rt, "prefix") < 8 {
			start()
			if rapid.IntRange(0, 2).Draw(rt, "hs") == 0 {
				handshake()
			}
		}
		n := rapid.IntRange(0, 18).Draw(rt, "nEvents")
		for i := 0; i < n; i++ {
			evs = append(evs, genEvent(rt, c, true))
		}
	}
	return c, evs, shape
}
