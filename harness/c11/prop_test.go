package c11

// prop_test.go: the generated tier.  One TestProp* per protocol (random histories in
// virtual time against the monitor) and the metamorphic option-independence check.

import (
	"bytes"
	"fmt"
	"sort"
	"testing"

	"pgregory.net/rapid"

	"bngverif/internal/vstat"
)

func propHistories(t *testing.T, p proto) {
	vstat.Checks(10000, 300000)
	rapid.Check(t, func(rt *rapid.T) {
		c, evs, shape := genHistory(rt, p)
		res := run(t, c, evs, runOpts{tail: true})
		hit := report(rt, c, evs, res)
		cls := []string{"shape:" + shape}
		for k := range res.Classes {
			cls = append(cls, k)
		}
		if hit {
			cls = append(cls, "known-finding-hit")
		}
		if c.P == pIPCP {
			cls = append(cls, "addr:"+c.AddrMode)
		}
		for _, e := range evs {
			x := e
			if e.K == kLate {
				cls = append(cls, "ev:LateTO")
				x = *e.Inner
			}
			switch x.K {
			case kRCA, kRCN, kRCJ:
				cls = append(cls, fmt.Sprintf("ev:%s-%s", x.K, idModeName[x.IDMode]))
			case kRCR:
				if x.Tail != tailNone || x.Hdr != hdrExact {
					cls = append(cls, "ev:RCR-malformed")
				}
				cls = append(cls, "ev:RCR")
			default:
				cls = append(cls, "ev:"+x.K.String())
			}
		}
		sort.Strings(cls)
		cls = uniq(cls)
		vstat.Case(res.NT, vstat.Hash(c.String(), evString(evs)), func() any {
			return map[string]any{"config": c.String(), "history": res.Trace, "final": res.State}
		}, cls...)
	})
}

func uniq(s []string) []string {
	out := s[:0]
	for i, x := range s {
		if i == 0 || x != s[i-1] {
			out = append(out, x)
		}
	}
	return out
}

func TestPropLCP(t *testing.T)    { propHistories(t, pLCP) }
func TestPropIPCP(t *testing.T)   { propHistories(t, pIPCP) }
func TestPropIPV6CP(t *testing.T) { propHistories(t, pIPV6CP) }

// TestPropOptionIndependence — "a nak or reject lists only offending options".
//
// Metamorphic form: an option that the automaton acknowledges when it is the only option of a
// request is, by the automaton's own judgement, not offending; so it must not be listed in the
// Nak/Reject of a larger request that merely adds other options.  RFC 1661 does not promise that
// options never interact, so the relation is asserted only where interaction is excluded by the
// protocols at hand: option types that occur exactly once in the larger request (what an
// implementation does with a repeated option is its own business) and values that do not depend
// on state the larger request itself changes (an LCP request that carries our own magic number
// makes the automaton pick a new one mid-request; such requests are left out).  Both requests go
// to twin automata with identical configuration in identical states (fresh; Open+Up; or after a
// full handshake), so nothing but the request differs.
func TestPropOptionIndependence(t *testing.T) {
	vstat.Checks(3000, 150000)
	rapid.Check(t, func(rt *rapid.T) {
		p := proto(rapid.IntRange(0, 2).Draw(rt, "proto"))
		c := genConfig(rt, p)
		if c.P == pIPCP && vstat.IsListed("C11/ipcp/ack-unassigned-address") && rapid.IntRange(0, 4).Draw(rt, "steerAddr") != 0 {
			c.AddrMode = rapid.SampledFrom([]string{"static", "pool"}).Draw(rt, "addrMode2")
		}
		var prefix []event
		switch rapid.IntRange(0, 2).Draw(rt, "prefix") {
		case 1:
			prefix = []event{{K: kOpen}, {K: kUp}}
		case 2:
			prefix = []event{{K: kOpen}, {K: kUp}, genRCR(rt, c, "ack"), {K: kRCA, IDMode: idMatch, EchoOurs: true}}
		}
		big := genRCR(rt, c, pick(rt, "bigShape", []string{"nak", "rej", "mixed", "dup", "ack"}, []int{30, 30, 25, 10, 5}))
		big.Tail, big.Hdr = tailNone, hdrExact
		for i, o := range big.Opts {
			if o.Sym == symLocalMagic {
				// a request carrying our own magic number makes the automaton pick a new one while the
				// request is being processed: options of such a request do interact; use magic 0 instead
				big.Opts[i] = optSpec{Type: 5, Data: u32(0), Cat: "nak"}
			}
		}
		bigRes, bigReply, bigReq := runProbe(t, c, prefix, big)
		if report(rt, c, append(prefix, big), bigRes) || bigRes.Abandoned || bigReply == nil {
			vstat.Case(false, 0, nil, "indep:abandoned")
			return
		}
		reqOpts, _, _ := parseOpts(bigReq)
		typeCount := map[byte]int{}
		for _, o := range reqOpts {
			typeCount[o[0]]++
		}
		listed, _, _ := parseOpts(bigReply.data)
		ackedAlone := 0
		for i, o := range big.Opts {
			if typeCount[o.Type] != 1 {
				continue
			}
			single := event{K: kRCR, ID: big.ID + 1, Opts: []optSpec{o}}
			sRes, sReply, sReq := runProbe(t, c, prefix, single)
			if report(rt, c, append(prefix, single), sRes) || sRes.Abandoned || sReply == nil {
				continue
			}
			if !bytes.Equal(sReq, reqOpts[i]) {
				rt.Fatalf("harness: twin automata resolved option %d differently: %x vs %x", i, sReq, []byte(reqOpts[i]))
			}
			if sReply.code != cCA {
				continue
			}
			ackedAlone++
			for _, l := range listed {
				if l[0] == o.Type {
					kind := "nak-lists-acceptable-option"
					if bigReply.code == cCJ {
						kind = "reject-lists-acceptable-option"
					}
					if bigReply.code == cCA {
						break
					}
					if vstat.Fail(rt, "C11/"+p.String()+"/"+kind, "option %x is acknowledged when sent alone, but request %x is answered with %s %x\nconfig: %s prefix: %s",
						[]byte(reqOpts[i]), bigReq, codeName[bigReply.code], bigReply.data, c, evString(prefix)) {
						return
					}
				}
			}
		}
		cls := []string{"indep:" + p.String(), "indep:reply-" + codeName[bigReply.code], fmt.Sprintf("indep:prefix-%d", len(prefix))}
		nt := ackedAlone > 0 && bigReply.code != cCA
		if nt {
			cls = append(cls, "indep:acceptable-option-inside-refused-request")
		}
		vstat.Case(nt, vstat.Hash("indep", c.String(), evString(prefix), big.String()), func() any {
			return map[string]any{"config": c.String(), "prefix": evString(prefix), "request": big.String(), "reply": codeName[bigReply.code], "acked_alone": ackedAlone}
		}, cls...)
	})
}

// runProbe runs prefix+req on a fresh automaton and returns the Configure-* reply to req and req's option bytes.
func runProbe(t *testing.T, c config, prefix []event, req event) (*result, *sentPkt, []byte) {
	var reply *sentPkt
	var reqData []byte
	evs := append(append([]event(nil), prefix...), req)
	res := runWith(t, c, evs, runOpts{}, func(r *runner, i int, wire []byte, replies []sentPkt) {
		if i == len(evs)-1 {
			if len(wire) >= 4 {
				reqData = append([]byte(nil), wire[4:]...)
			}
			if len(replies) == 1 {
				rp := replies[0]
				reply = &rp
			}
		}
	})
	return res, reply, reqData
}
