package c11

// replay_test.go: regression tier (bypasses rapid).
//
//   TestReplayKnownFindings  minimal histories for every listed known finding; each asserts through the
//                            same signature as the generated tier (silent while listed, VIOLATION again if a
//                            fix is applied, the entry removed and the fix later reverted)
//   TestReplayRegression     hand-written histories around the sensitivity mutants; must stay clean
//   TestReplayFiles          JSON cases under /verif/replays/C11 (or $VERIF_REPLAY_FILE)

import (
	"encoding/json"
	"os"
	"path/filepath"
	"sort"
	"strings"
	"testing"
	"time"

	"bngverif/internal/vstat"
)

type replayCase struct {
	Name   string  `json:"name"`
	Text   string  `json:"history,omitempty"` // human-readable rendering of Events (ignored on input)
	Expect string  `json:"expect,omitempty"`  // signature this history is known to produce ("" = must be clean)
	Config config  `json:"config"`
	Events []event `json:"events"`
}

func lcpCfg(maxConf, maxTerm int) config {
	return config{P: pLCP, RT: 3 * time.Second, MaxConf: maxConf, MaxTerm: maxTerm, Magic: 0x0a0b0c0d, MRU: 1492}
}
func ipcpCfg(mode string) config {
	return config{P: pIPCP, RT: 3 * time.Second, MaxConf: 2, MaxTerm: 2, AddrMode: mode, Static: [4]byte{100, 64, 0, 9}}
}
func ip6Cfg() config {
	return config{P: pIPV6CP, RT: 3 * time.Second, MaxConf: 2, MaxTerm: 2, IfID: 0x0200000000000001}
}

func okReq(c config, id byte) event {
	switch c.P {
	case pLCP:
		return event{K: kRCR, ID: id, Opts: []optSpec{{Type: 1, Data: u16(1400)}, {Type: 5, Data: u32(0x51525354)}}}
	case pIPCP:
		return event{K: kRCR, ID: id, Opts: []optSpec{{Type: 3, Sym: symAssigned}}}
	}
	return event{K: kRCR, ID: id, Opts: []optSpec{{Type: 1, Data: u64(0x0200000000000077)}}}
}

var (
	eOpen  = event{K: kOpen}
	eUp    = event{K: kUp}
	eDown  = event{K: kDown}
	eClose = event{K: kClose}
	eTO    = event{K: kTO}
	eRCA   = event{K: kRCA, IDMode: idMatch, EchoOurs: true}
	eRCAst = event{K: kRCA, IDMode: idStale, EchoOurs: true}
	eRTR   = event{K: kRTR, ID: 0x70}
	eRTA   = event{K: kRTA, ID: 0x71}

	eRCAoth   = event{K: kRCA, IDMode: idOther, EchoOurs: true}
	eRCNoth   = event{K: kRCN, IDMode: idOther}
	eUnknown  = event{K: kOther, Code: 12, ID: 0x55, Data: []byte{0, 0, 0, 1, 'i', 'd'}} // RFC 1570 Identification
	eSendPJ   = event{K: kSendPJ, Proto: 0x80fd, Data: []byte{1, 1, 0, 4}}
	eSendEcho = event{K: kSendEcho}
)

func knownCases() []replayCase {
	var out []replayCase
	for _, c := range []config{lcpCfg(2, 2), ipcpCfg("static"), ip6Cfg()} {
		p := c.P.String()
		rq := okReq(c, 0x41)
		rca := eRCA
		out = append(out,
			// the restart timer expires while the peer's Ack is being handled; its callback then runs in Ack-Rcvd,
			// sends a NEW request and stays in Ack-Rcvd; the peer's next request opens the layer
			replayCase{Name: p + "-late-timeout-in-ack-rcvd", Expect: "C11/" + p + "/opened-without-peer-ack/RCR/request-sent-on-TO", Config: c,
				Events: []event{eOpen, eUp, {K: kLate, Inner: &rca}, rq}},
			// a received packet stops the restart timer without re-arming it: the automaton never gives up
			replayCase{Name: p + "-stuck-ack-rcvd", Expect: "C11/" + p + "/no-termination/silent-in-Ack-Rcvd", Config: c, Events: []event{eOpen, eUp, eRCA}},
			replayCase{Name: p + "-stuck-req-sent", Expect: "C11/" + p + "/no-termination/silent-in-Req-Sent", Config: c, Events: []event{eOpen, eUp, eRTA}},
			replayCase{Name: p + "-stuck-ack-sent", Expect: "C11/" + p + "/no-termination/silent-in-Ack-Sent", Config: c, Events: []event{eOpen, eUp, rq, eRTA}},
			replayCase{Name: p + "-stuck-closing", Expect: "C11/" + p + "/no-termination/silent-in-Closing", Config: c, Events: []event{eOpen, eUp, eClose, eRTR}},
			replayCase{Name: p + "-stuck-stopping", Expect: "C11/" + p + "/no-termination/silent-in-Stopping", Config: c, Events: []event{eOpen, eUp, rq, eRCA, eRTR}},
		)
	}
	l41, l13 := lcpCfg(4, 1), lcpCfg(1, 3)
	out = append(out,
		replayCase{Name: "lcp-terminate-counts-max-configure-many", Expect: "C11/lcp/terminate-retransmissions/too-many", Config: l41,
			Events: []event{eOpen, eUp, okReq(l41, 1), eRCA, eClose}},
		replayCase{Name: "lcp-terminate-counts-max-configure-few", Expect: "C11/lcp/terminate-retransmissions/too-few", Config: l13,
			Events: []event{eOpen, eUp, okReq(l13, 1), eRCA, eClose}},
		replayCase{Name: "lcp-echo-request-short", Expect: "C11/lcp/panic/Echo-short", Config: lcpCfg(2, 2),
			Events: []event{eOpen, eUp, okReq(lcpCfg(2, 2), 1), eRCA, {K: kEcho, ID: 9, Data: []byte{1, 2}}}},
		replayCase{Name: "ipcp-ack-any-address-when-none-assigned", Expect: "C11/ipcp/ack-unassigned-address", Config: ipcpCfg("none"),
			Events: []event{eOpen, eUp, {K: kRCR, ID: 5, Opts: []optSpec{{Type: 3, Data: []byte{192, 168, 7, 7}}}}}},
		replayCase{Name: "ipcp-ack-any-address-when-pool-exhausted", Expect: "C11/ipcp/ack-unassigned-address", Config: ipcpCfg("exhausted"),
			Events: []event{eOpen, eUp, {K: kRCR, ID: 5, Opts: []optSpec{{Type: 3, Data: []byte{192, 168, 7, 7}}}}}},
		replayCase{Name: "ipcp-ack-address-released-by-down", Expect: "C11/ipcp/ack-released-address", Config: ipcpCfg("pool"),
			Events: []event{eOpen, eUp, eDown, eUp, {K: kRCR, ID: 6, Opts: []optSpec{{Type: 3, Sym: symReleased}}}}},
	)
	return out
}

func regressionCases() []replayCase {
	var out []replayCase
	for _, c := range []config{lcpCfg(3, 2), ipcpCfg("static"), ipcpCfg("pool"), ip6Cfg()} {
		p := c.P.String()
		if c.P == pIPCP {
			p += "-" + c.AddrMode
		}
		rq := okReq(c, 0x41)
		out = append(out,
			replayCase{Name: p + "-handshake-rcr-first", Config: c, Events: []event{eOpen, eUp, rq, eRCA, eClose, eRTA}},
			replayCase{Name: p + "-handshake-rca-first", Config: c, Events: []event{eUp, eOpen, eRCA, rq, eDown}},
			replayCase{Name: p + "-stale-ack-in-ack-sent", Config: c, Events: []event{eOpen, eUp, rq, eTO, eRCAst, eTO, eTO, eTO}},
			replayCase{Name: p + "-ack-in-req-sent-does-not-open", Config: c, Events: []event{eOpen, eUp, eRCA, eDown}},
			replayCase{Name: p + "-rtr-in-opened", Config: c, Events: []event{eOpen, eUp, rq, eRCA, eRTR, eDown}},
			replayCase{Name: p + "-renegotiation-in-opened", Config: c, Events: []event{eOpen, eUp, rq, eRCA, okReq(c, 0x42), eRCA, eDown}},
			replayCase{Name: p + "-silent-peer", Config: c, Events: []event{eOpen, eUp}},
			// an Ack that carries the identifier of ANOTHER packet we sent (our reply to the peer's request; for LCP the
			// Code-Reject / Protocol-Reject / Echo-Request it originated) acknowledges nothing (seeded change C11-C)
			replayCase{Name: p + "-ack-with-id-of-our-reply", Config: c, Events: []event{eOpen, eUp, rq, eRCAoth, okReq(c, 0x43), eTO, eDown}},
			replayCase{Name: p + "-ack-with-id-of-our-code-reject", Config: c, Events: []event{eOpen, eUp, eUnknown, eRCAoth, rq, eTO, eRCA, eDown}},
			replayCase{Name: p + "-ack-with-id-of-our-protocol-reject", Config: c, Events: []event{eOpen, eUp, rq, eSendPJ, eRCAoth, eRCNoth, eTO, eRCA, eDown}},
			replayCase{Name: p + "-ack-with-id-of-our-echo-request", Config: c, Events: []event{eOpen, eUp, rq, eRCA, eSendEcho, eRCAoth, rq, eRCAoth, eDown}},
			replayCase{Name: p + "-ack-with-id-of-our-terminate-request", Config: c, Events: []event{eOpen, eUp, rq, eRCA, eClose, eOpen, eRCAoth, eDown, eUp, eRCAoth, rq, eDown}},
			replayCase{Name: p + "-close-from-opened-silent", Config: lcpSafe(c), Events: []event{eOpen, eUp, rq, eRCA, eClose}},
		)
	}
	return out
}

// lcpSafe keeps the close-from-Opened regression case clear of the listed MaxTerminate finding.
func lcpSafe(c config) config {
	if c.P == pLCP {
		c.MaxTerm = c.MaxConf
	}
	return c
}

func runReplay(t *testing.T, rc replayCase) {
	res := run(t, rc.Config, rc.Events, runOpts{tail: true})
	got := false
	for _, v := range res.Verdicts {
		if v.Sig == rc.Expect {
			got = true
		}
	}
	report(t, rc.Config, rc.Events, res) // fatal on anything that is not listed
	cls := []string{"replay"}
	if rc.Expect != "" {
		switch {
		case got:
			cls = append(cls, "replay:known-finding-reproduced")
		case vstat.IsListed(rc.Expect):
			cls = append(cls, "replay:known-finding-STALE")
			vstat.Note("stale "+rc.Expect, rc.Name)
			t.Logf("stale: %s no longer produces %s", rc.Name, rc.Expect)
		default:
			cls = append(cls, "replay:fixed-finding-stays-fixed")
		}
	}
	vstat.Case(res.NT, vstat.Hash("replay", rc.Name), func() any {
		return map[string]any{"replay": rc.Name, "config": rc.Config.String(), "history": res.Trace}
	}, cls...)
}

func TestReplayKnownFindings(t *testing.T) {
	for _, rc := range knownCases() {
		t.Run(rc.Name, func(t *testing.T) { runReplay(t, rc) })
	}
}

func TestReplayRegression(t *testing.T) {
	for _, rc := range regressionCases() {
		t.Run(rc.Name, func(t *testing.T) { runReplay(t, rc) })
	}
}

// TestReplayFiles replays JSON cases: $VERIF_REPLAY_FILE if set, otherwise every *.json under $VERIF_REPLAYS.
// With C11_WRITE_REPLAYS=<dir> it (re)writes the known-finding cases as files instead.
func TestReplayFiles(t *testing.T) {
	if d := os.Getenv("C11_WRITE_REPLAYS"); d != "" {
		for _, rc := range knownCases() {
			rc.Text = evString(rc.Events)
			b, _ := json.Marshal(rc)
			if err := os.WriteFile(filepath.Join(d, rc.Name+".json"), append(b, '\n'), 0o644); err != nil {
				t.Fatal(err)
			}
		}
		return
	}
	var files []string
	if f := os.Getenv("VERIF_REPLAY_FILE"); f != "" {
		if strings.HasSuffix(f, ".json") {
			files = []string{f}
		}
	} else if d := os.Getenv("VERIF_REPLAYS"); d != "" {
		files, _ = filepath.Glob(filepath.Join(d, "*.json"))
		sort.Strings(files)
	}
	for _, f := range files {
		b, err := os.ReadFile(f)
		if err != nil {
			t.Fatalf("INCONCLUSIVE: %v", err)
		}
		var rc replayCase
		if err := json.Unmarshal(b, &rc); err != nil {
			t.Fatalf("INCONCLUSIVE: %s: %v", f, err)
		}
		if rc.Name == "" {
			rc.Name = filepath.Base(f)
		}
		rc.Name = "file:" + rc.Name
		t.Run(filepath.Base(f), func(t *testing.T) { runReplay(t, rc) })
	}
}
