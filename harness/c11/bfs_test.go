package c11

// bfs_test.go: bounded-exhaustive tier.  Breadth-first exploration of all event sequences over a
// fixed alphabet (one concrete representative per event class of the statement), pruned by a
// fingerprint of (automaton state, restart counter, restart timer pending, monitor state), until
// no new fingerprint appears or the depth bound is hit.  The automaton cannot be cloned, so each
// node is re-executed from a fresh automaton in its own bubble.

import (
	"fmt"
	"sort"
	"strings"
	"testing"
	"time"

	"bngverif/internal/vstat"
)

type letter struct {
	name string
	ev   event
}

func alphabet(c config) []letter {
	var ok, nak, rej optSpec
	switch c.P {
	case pLCP:
		ok, nak, rej = optSpec{Type: 1, Data: u16(1400)}, optSpec{Type: 1, Data: u16(9000)}, optSpec{Type: 3, Data: []byte{0xc0, 0x23}}
	case pIPCP:
		ok, nak, rej = optSpec{Type: 3, Sym: symAssigned}, optSpec{Type: 3, Data: []byte{0, 0, 0, 0}}, optSpec{Type: 2, Data: []byte{0, 0x2d, 0x0f, 1}}
	default:
		ok, nak, rej = optSpec{Type: 1, Data: u64(0x0200000000000042)}, optSpec{Type: 1, Data: u64(0)}, optSpec{Type: 9, Data: []byte{1}}
	}
	rcrOK := event{K: kRCR, ID: 0x21, Opts: []optSpec{ok}}
	rcaM := event{K: kRCA, IDMode: idMatch, EchoOurs: true}
	cl := event{K: kClose}
	l := []letter{
		{"Up", event{K: kUp}}, {"Down", event{K: kDown}}, {"Open", event{K: kOpen}}, {"Close", cl}, {"TO", event{K: kTO}},
		{"RCR+", rcrOK},
		{"RCR-nak", event{K: kRCR, ID: 0x22, Opts: []optSpec{ok, nak}}},
		{"RCR-rej", event{K: kRCR, ID: 0x23, Opts: []optSpec{rej, ok}}},
		{"RCR-bad", event{K: kRCR, ID: 0x24, Opts: []optSpec{ok}, Tail: tailShortLen}},
		{"RCA", rcaM}, {"RCA-stale", event{K: kRCA, IDMode: idStale, EchoOurs: true}},
		// the identifier of the most recent packet we sent that is not a Configure-Request (Terminate-Request, Code-Reject,
		// Protocol-Reject, Echo-Request or one of our replies); an earlier request's if there is none
		{"RCA-other", event{K: kRCA, IDMode: idOther, EchoOurs: true}},
		{"RCN", event{K: kRCN, IDMode: idMatch, Opts: []optSpec{ok}}}, {"RCN-stale", event{K: kRCN, IDMode: idStale, Opts: []optSpec{ok}}},
		{"RCJ", event{K: kRCJ, IDMode: idMatch, Opts: []optSpec{ok}}}, {"RCJ-stale", event{K: kRCJ, IDMode: idStale, Opts: []optSpec{ok}}},
		{"RTR", event{K: kRTR, ID: 0x31}}, {"RTA", event{K: kRTA, ID: 0x32}},
		{"XJ-", event{K: kXJ, ID: 0x33, Data: []byte{cCR, 1, 0, 4}}},
		{"PJ", event{K: kPJ, ID: 0x34, Data: []byte{0xc0, 0x21, 1, 1, 0, 4}}},
		{"Echo", event{K: kEcho, ID: 0x35, Data: []byte{0, 0, 0, 9, 1, 2, 3, 4}}},
		{"Late[RCA]", event{K: kLate, Inner: &rcaM}},
		{"Late[RCR+]", event{K: kLate, Inner: &rcrOK}},
		{"Late[Close]", event{K: kLate, Inner: &cl}},
	}
	if c.P == pLCP {
		l = append(l,
			letter{"XJ+", event{K: kXJ, ID: 0x36, Data: []byte{12, 1, 0, 4}}},
			letter{"PJ-other", event{K: kPJ, ID: 0x37, Data: []byte{0x80, 0x57, 1, 1, 0, 4}}},
			letter{"Unknown", event{K: kOther, Code: 12, ID: 0x38, Data: []byte{0, 0, 0, 9, 'x'}}}, // RFC 1570 Identification -> Code-Reject
			letter{"SendEcho", event{K: kSendEcho}},
			letter{"SendPJ", event{K: kSendPJ, Proto: 0x80fd, Data: []byte{1, 1, 0, 4}}})
	}
	if vstat.Thorough() {
		rta, rtr, dn := event{K: kRTA, ID: 0x32}, event{K: kRTR, ID: 0x31}, event{K: kDown}
		rcn := event{K: kRCN, IDMode: idMatch, Opts: []optSpec{ok}}
		l = append(l,
			letter{"Half", event{K: kHalf}},
			letter{"RCR+trail", event{K: kRCR, ID: 0x27, Opts: []optSpec{ok}, Tail: tailOneByte}},
			letter{"RCR+padded", event{K: kRCR, ID: 0x28, Opts: []optSpec{ok}, Hdr: hdrPadded}},
			letter{"RCR-shorthdr", event{K: kRCR, ID: 0x29, Opts: []optSpec{ok}, Hdr: hdrShort}},
			letter{"RCA-otheropts", event{K: kRCA, IDMode: idMatch, Opts: []optSpec{rej}}},
			letter{"XJ-empty", event{K: kXJ, ID: 0x39}},
			letter{"RCN-other", event{K: kRCN, IDMode: idOther, Opts: []optSpec{ok}}},
			letter{"RCJ-other", event{K: kRCJ, IDMode: idOther, Opts: []optSpec{ok}}},
			letter{"RTA-other", event{K: kRTA, IDFrom: fromOther}},
			letter{"Late[RTA]", event{K: kLate, Inner: &rta}},
			letter{"Late[RTR]", event{K: kLate, Inner: &rtr}},
			letter{"Late[RCN]", event{K: kLate, Inner: &rcn}},
			letter{"Late[Down]", event{K: kLate, Inner: &dn}})
		if c.P == pLCP {
			l = append(l, letter{"Echo-short", event{K: kEcho, ID: 0x3a, Data: []byte{1, 2}}})
		}
	}
	if c.P == pIPCP {
		foreignReq := event{K: kRCR, ID: 0x25, Opts: []optSpec{{Type: 3, Data: []byte{192, 168, 7, 7}}}}
		l = append(l, letter{"RCR-foreign", foreignReq})
		if vstat.Thorough() {
			l = append(l, letter{"RCR-near", event{K: kRCR, ID: 0x2a, Opts: []optSpec{{Type: 3, Sym: symNear}}}})
		}
		if c.AddrMode == "pool" {
			l = append(l, letter{"RCR-released", event{K: kRCR, ID: 0x26, Opts: []optSpec{{Type: 3, Sym: symReleased}}}})
		}
		if c.AddrMode == "none" {
			l = append(l, letter{"Assign", event{K: kAssign, IP: &[4]byte{100, 65, 0, 1}}})
		}
	}
	return l
}

func bfs(t *testing.T, c config, maxDepth int) {
	alpha := alphabet(c)
	visited := map[string]bool{}
	root := run(t, c, nil, runOpts{probe: true})
	visited[root.FP] = true
	frontier := [][]int{nil}
	runs, states, abandoned := 0, 1, 0
	depthReached := 0
	for depth := 1; depth <= maxDepth && len(frontier) > 0; depth++ {
		depthReached = depth
		var next [][]int
		for _, node := range frontier {
			for ei := range alpha {
				seq := append(append(make([]int, 0, len(node)+1), node...), ei)
				evs := make([]event, len(seq))
				names := make([]string, len(seq))
				for i, x := range seq {
					evs[i], names[i] = alpha[x].ev, alpha[x].name
				}
				res := run(t, c, evs, runOpts{probe: true})
				runs++
				report(t, c, evs, res)
				cls := []string{fmt.Sprintf("bfs:depth-%d", depth), "bfs:" + c.P.String()}
				for k := range res.Classes {
					cls = append(cls, k)
				}
				sort.Strings(cls)
				fresh := false
				if res.Abandoned {
					abandoned++
					cls = append(cls, "bfs:abandoned-on-known-finding")
				} else if !visited[res.FP] {
					visited[res.FP] = true
					states++
					fresh = true
					cls = append(cls, "bfs:new-abstract-state")
					// the termination oracle depends only on the abstract state: run it once per new one
					tl := run(t, c, evs, runOpts{tail: true})
					report(t, c, evs, tl)
					next = append(next, seq)
				}
				key := strings.Join(names, " ")
				vstat.Case(res.NT, vstat.Hash("bfs", c.String(), key), func() any {
					return map[string]any{"config": c.String(), "sequence": key, "state": res.State, "fingerprint": res.FP, "new": fresh}
				}, cls...)
			}
		}
		t.Logf("depth %d: %d new abstract states", depth, len(next))
		frontier = next
	}
	fixed := len(frontier) == 0
	vstat.Exhaustive(fixed)
	vstat.Note("bfs "+c.String(), map[string]any{"alphabet": len(alpha), "runs": runs, "abstract_states": states, "depth_reached": depthReached,
		"fixed_point": fixed, "abandoned_on_known_findings": abandoned})
	t.Logf("bfs %s: alphabet=%d runs=%d abstract states=%d depth=%d fixed point=%v abandoned=%d", c, len(alpha), runs, states, depthReached, fixed, abandoned)
}

// bfsDepth: the statement asks for "a fixed point or depth 8"; the fixed point is reached at depth 10-13, so go there.
const maxBFSDepth = 16

func bfsDepth() int { return maxBFSDepth }

func TestPropBFSLCP(t *testing.T) {
	bfs(t, config{P: pLCP, RT: time.Second, MaxConf: 2, MaxTerm: 2, Magic: 0x11223344, MRU: 1492}, bfsDepth())
	{
		bfs(t, config{P: pLCP, RT: time.Second, MaxConf: 3, MaxTerm: 1, Magic: 0x11223344, MRU: 1492, PFC: true}, bfsDepth())
		bfs(t, config{P: pLCP, RT: 3 * time.Second, MaxConf: 1, MaxTerm: 2, Magic: 0x11223344, MRU: 1492, CHAP: true}, bfsDepth())
	}
}

func TestPropBFSIPCPStatic(t *testing.T) {
	bfs(t, config{P: pIPCP, RT: time.Second, MaxConf: 2, MaxTerm: 2, AddrMode: "static", Static: [4]byte{100, 64, 0, 9}, DNS1: true}, bfsDepth())
}

func TestPropBFSIPCPPool(t *testing.T) {
	bfs(t, config{P: pIPCP, RT: time.Second, MaxConf: 2, MaxTerm: 2, AddrMode: "pool"}, bfsDepth())
}

func TestPropBFSIPCPNone(t *testing.T) {
	bfs(t, config{P: pIPCP, RT: time.Second, MaxConf: 2, MaxTerm: 2, AddrMode: "none"}, bfsDepth())
	{
		bfs(t, config{P: pIPCP, RT: time.Second, MaxConf: 1, MaxTerm: 1, AddrMode: "exhausted"}, bfsDepth())
	}
}

func TestPropBFSIPV6CP(t *testing.T) {
	bfs(t, config{P: pIPV6CP, RT: time.Second, MaxConf: 2, MaxTerm: 2, IfID: 0x0200000000000001}, bfsDepth())
	{
		bfs(t, config{P: pIPV6CP, RT: 500 * time.Millisecond, MaxConf: 3, MaxTerm: 3, IfID: 0x0200000000000001}, bfsDepth())
	}
}
