package c11

// C11 — PPP control protocols open only on mutual agreement and always terminate.
//
// core_test.go: adapters around the three real automata (pkg/pppoe LCP, IPCP,
// IPV6CP), the event vocabulary, the executor (runs one generated history in
// virtual time inside a synctest bubble) and the monitor.
//
// The monitor is written from the property statement.  It never looks at the
// automaton's internals; it sees (a) the packets the automaton hands to its send
// callback, (b) IsOpened()/GetState() after every event, (c) what the harness's
// own IP pool was asked to do.  (The only internal that is read is the restart
// counter, and only for BFS state fingerprints, never for a verdict.)

import (
	"bytes"
	"encoding/binary"
	"fmt"
	"net"
	"strings"
	"sync"
	"testing"
	"testing/synctest"
	"time"

	"github.com/codelaboratoryltd/bng/pkg/pppoe"
	"go.uber.org/zap"

	"bngverif/internal/vstat"
)

func TestMain(m *testing.M) { vstat.Main(m, "C11") }

// ---------------------------------------------------------------- protocols

type proto int

const (
	pLCP proto = iota
	pIPCP
	pIPV6CP
)

var protoName = [...]string{"lcp", "ipcp", "ipv6cp"}

func (p proto) String() string { return protoName[p] }

// PPP codes (RFC 1661 §5)
const (
	cCR   = 1
	cCA   = 2
	cCN   = 3
	cCJ   = 4
	cTR   = 5
	cTA   = 6
	cXJ   = 7 // Code-Reject
	cPJ   = 8 // Protocol-Reject
	cEchQ = 9
	cEchR = 10
	cDisc = 11
)

var codeName = map[byte]string{1: "Configure-Request", 2: "Configure-Ack", 3: "Configure-Nak", 4: "Configure-Reject",
	5: "Terminate-Request", 6: "Terminate-Ack", 7: "Code-Reject", 8: "Protocol-Reject", 9: "Echo-Request", 10: "Echo-Reply", 11: "Discard-Request"}

// config is the generated configuration of one automaton.
type config struct {
	P       proto
	RT      time.Duration
	MaxConf int // LCP MaxConfigure / NCP MaxRetransmit
	MaxTerm int // LCP MaxTerminate / NCP MaxRetransmit (single knob)

	// LCP
	Magic uint32
	MRU   uint16
	CHAP  bool
	PFC   bool
	ACFC  bool

	// IPCP
	AddrMode string // static | pool | none | exhausted
	Static   [4]byte
	DNS1     bool
	DNS2     bool

	// IPV6CP
	IfID uint64
}

func (c config) String() string {
	switch c.P {
	case pLCP:
		return fmt.Sprintf("lcp{rt=%s maxconf=%d maxterm=%d magic=%08x mru=%d chap=%v pfc=%v acfc=%v}", c.RT, c.MaxConf, c.MaxTerm, c.Magic, c.MRU, c.CHAP, c.PFC, c.ACFC)
	case pIPCP:
		return fmt.Sprintf("ipcp{rt=%s max=%d addr=%s static=%v dns=%v/%v}", c.RT, c.MaxConf, c.AddrMode, net.IP(c.Static[:]), c.DNS1, c.DNS2)
	default:
		return fmt.Sprintf("ipv6cp{rt=%s max=%d ifid=%016x}", c.RT, c.MaxConf, c.IfID)
	}
}

// fsm is the common face of the three automata.
type fsm interface {
	Up()
	Down()
	Open()
	Close()
	ReceivePacket([]byte) error
	IsOpened() bool
	State() string
	TakeTimer() bool // verif hook: remove the pending restart timer as its expiry would
	Timeout()        // verif hook: what the expired timer's goroutine calls
	RestartCount() int
}

type lcpA struct{ *pppoe.LCPStateMachine }

func (a lcpA) State() string     { return a.GetState().String() }
func (a lcpA) TakeTimer() bool   { return a.VerifC11TakeRestartTimer() }
func (a lcpA) Timeout()          { a.VerifC11Timeout() }
func (a lcpA) RestartCount() int { return a.VerifC11RestartCount() }

type ipcpA struct{ *pppoe.IPCPStateMachine }

func (a ipcpA) State() string     { return a.GetState().String() }
func (a ipcpA) TakeTimer() bool   { return a.VerifC11TakeRestartTimer() }
func (a ipcpA) Timeout()          { a.VerifC11Timeout() }
func (a ipcpA) RestartCount() int { return a.VerifC11RestartCount() }

type ip6A struct{ *pppoe.IPV6CPStateMachine }

func (a ip6A) State() string     { return a.GetState().String() }
func (a ip6A) TakeTimer() bool   { return a.VerifC11TakeRestartTimer() }
func (a ip6A) Timeout()          { a.VerifC11Timeout() }
func (a ip6A) RestartCount() int { return a.VerifC11RestartCount() }

// fakePool is the harness-owned IPPoolAllocator: every Allocate hands out a
// fresh address, so "the address assigned to the session" is whatever the last
// Allocate returned and no Release has given back since.
type fakePool struct {
	mu        sync.Mutex
	exhausted bool
	n         int
	assigned  net.IP // currently held by the session (nil: none)
	released  net.IP // last address given back
	allocs    int
	releases  int
}

func (p *fakePool) Allocate(string) net.IP {
	p.mu.Lock()
	defer p.mu.Unlock()
	p.allocs++
	if p.exhausted {
		return nil
	}
	p.n++
	ip := net.IPv4(10, 64, byte(p.n>>8), byte(p.n)).To4()
	p.assigned = ip
	return ip
}

func (p *fakePool) Release(string) {
	p.mu.Lock()
	defer p.mu.Unlock()
	p.releases++
	if p.assigned != nil {
		p.released = p.assigned
		p.assigned = nil
	}
}

var (
	serverIP = net.IPv4(10, 0, 0, 1)
	dns1     = net.IPv4(9, 9, 9, 9)
	dns2     = net.IPv4(149, 112, 112, 112)
	foreign  = [4]byte{10, 99, 0, 1}
)

// sentPkt is one packet handed to the send callback, decoded by the RFC 1661 header.
type sentPkt struct {
	proto uint16
	code  byte
	id    byte
	data  []byte // bytes between the header and Length
	raw   []byte
}

type recorder struct {
	mu   sync.Mutex
	pkts []sentPkt
}

func (r *recorder) send(protocol uint16, b []byte) {
	raw := append([]byte(nil), b...)
	p := sentPkt{proto: protocol, raw: raw}
	if len(raw) >= 4 {
		p.code, p.id = raw[0], raw[1]
		l := int(binary.BigEndian.Uint16(raw[2:4]))
		if l >= 4 && l <= len(raw) {
			p.data = raw[4:l]
		}
	}
	r.mu.Lock()
	r.pkts = append(r.pkts, p)
	r.mu.Unlock()
}

func (r *recorder) since(i int) []sentPkt {
	r.mu.Lock()
	defer r.mu.Unlock()
	return append([]sentPkt(nil), r.pkts[i:]...)
}

func (r *recorder) len() int {
	r.mu.Lock()
	defer r.mu.Unlock()
	return len(r.pkts)
}

func build(c config, rec *recorder) (fsm, *fakePool) {
	lg := zap.NewNop()
	switch c.P {
	case pLCP:
		lc := pppoe.DefaultLCPConfig()
		lc.MRU = c.MRU
		lc.MagicNumber = c.Magic
		if c.CHAP {
			lc.AuthProtocol = pppoe.ProtocolCHAP
		}
		lc.PFC, lc.ACFC = c.PFC, c.ACFC
		lc.RestartTimer = c.RT
		lc.MaxConfigure, lc.MaxTerminate = c.MaxConf, c.MaxTerm
		m, err := pppoe.NewLCPStateMachine(lc, rec.send, lg)
		if err != nil {
			panic(err)
		}
		return lcpA{m}, nil
	case pIPCP:
		ic := pppoe.DefaultIPCPConfig()
		ic.LocalIP = serverIP
		ic.MaxRetransmit = c.MaxConf
		ic.RestartTimer = c.RT
		if c.DNS1 {
			ic.PrimaryDNS = dns1
		}
		if c.DNS2 {
			ic.SecondaryDNS = dns2
		}
		var pool *fakePool
		switch c.AddrMode {
		case "static":
			ic.PeerIP = net.IP(append([]byte(nil), c.Static[:]...))
		case "pool":
			pool = &fakePool{}
			ic.IPPool = pool
		case "exhausted":
			pool = &fakePool{exhausted: true}
			ic.IPPool = pool
		}
		return ipcpA{pppoe.NewIPCPStateMachine(ic, "sess-1", rec.send, lg)}, pool
	default:
		vc := pppoe.IPV6CPConfig{LocalInterfaceID: c.IfID, MaxRetransmit: c.MaxConf, RestartTimer: c.RT}
		m, err := pppoe.NewIPV6CPStateMachine(vc, rec.send, lg)
		if err != nil {
			panic(err)
		}
		return ip6A{m}, nil
	}
}

// ---------------------------------------------------------------- events

type kind int

const (
	kUp kind = iota
	kDown
	kOpen
	kClose
	kTO   // advance virtual time by exactly the restart timer
	kHalf // advance virtual time by half the restart timer
	kRCR
	kRCA
	kRCN
	kRCJ
	kRTR
	kRTA
	kXJ // Code-Reject
	kPJ // Protocol-Reject
	kEcho
	kOther  // Echo-Reply, Discard-Request or an unknown code
	kLate   // restart timer expires but its callback runs only after Inner was handled
	kAssign // IPCP SetPeerIP
	// events that make the automaton ORIGINATE a packet with an identifier of its own (appended: the numbers are part of the replay files)
	kSendEcho // LCP SendEchoRequest() — what the keep-alive does
	kSendPJ   // LCP SendProtocolReject(Proto, Data) — what the session layer does with a packet of an unsupported protocol
	nKinds
)

var kindName = [...]string{"Up", "Down", "Open", "Close", "TO", "Half", "RCR", "RCA", "RCN", "RCJ", "RTR", "RTA", "CodeRej", "ProtoRej", "Echo", "Other", "LateTO", "Assign", "SendEcho", "SendProtoRej"}

func (k kind) String() string { return kindName[k] }

type sym int

const (
	symNone       sym = iota
	symAssigned       // the address currently assigned to the session (fallback: a foreign one)
	symReleased       // the address the session last gave back to the pool (fallback: foreign)
	symLocalMagic     // the magic number of our own latest Configure-Request
	symLocalIfID      // the interface id of our own latest Configure-Request
	symNear           // the assigned address with its last bit flipped (fallback: foreign)
)

type optSpec struct {
	Type byte   `json:"type"`
	Data []byte `json:"data,omitempty"`
	Sym  sym    `json:"sym,omitempty"`
	Cat  string `json:"cat,omitempty"` // the generator's intent (ok/nak/rej); used for class labels only, never by the oracle
}

const (
	idMatch = iota // identifier of our latest Configure-Request
	idStale        // identifier of an earlier request (latest - 1 - ID%3)
	idRaw          // ID as drawn
	idOther        // identifier of some OTHER packet we sent in this history: the (ID%4)-th most recent packet that is not a
	//                Configure-Request (Terminate-Request, Code-Reject, Protocol-Reject, Echo-Request, and our replies);
	//                fallback: idStale
)

// IDFrom: where the identifier of an incoming Terminate-Ack / Code-Reject / Echo-Reply comes from (0 keeps the
// meaning these events always had: ID as drawn).
const (
	fromRaw     = iota
	fromRequest // Terminate-Ack: our latest Terminate-Request; otherwise our latest Configure-Request
	fromOther   // as idOther (for a Terminate-Ack: any packet that is not a Terminate-Request)
)

var idModeName = [...]string{"match", "stale", "raw", "other"}

const (
	tailNone     = iota
	tailOneByte  // one stray byte after the last option
	tailShortLen // an option whose length byte is 0 or 1
	tailOverrun  // an option whose length runs past the packet
)

const (
	hdrExact   = iota
	hdrPadded  // garbage after Length (RFC 1661: padding, ignored)
	hdrShort   // Length field < 4
	hdrOverrun // Length field > bytes delivered
)

type event struct {
	K        kind      `json:"k"`
	ID       byte      `json:"id,omitempty"`
	IDMode   int       `json:"idmode,omitempty"`
	IDFrom   int       `json:"idfrom,omitempty"` // RTA, Code-Reject, Echo-Reply (kOther code 10)
	Proto    uint16    `json:"proto,omitempty"`  // kSendPJ
	Opts     []optSpec `json:"opts,omitempty"`
	EchoOurs bool      `json:"echo_ours,omitempty"` // RCA: repeat the options of our latest request
	Tail     int       `json:"tail,omitempty"`
	Hdr      int       `json:"hdr,omitempty"`
	Data     []byte    `json:"data,omitempty"`  // payload of RTR/RTA/Echo/Code-Reject/Protocol-Reject/Other
	Code     byte      `json:"code,omitempty"`  // kOther
	Inner    *event    `json:"inner,omitempty"` // kLate
	IP       *[4]byte  `json:"ip,omitempty"`    // kAssign
}

func (e event) String() string {
	var b strings.Builder
	b.WriteString(e.K.String())
	switch e.K {
	case kRCR:
		fmt.Fprintf(&b, "(id=%d", e.ID)
		for _, o := range e.Opts {
			fmt.Fprintf(&b, " %s", o)
		}
		if e.Tail != tailNone {
			fmt.Fprintf(&b, " tail=%d", e.Tail)
		}
		if e.Hdr != hdrExact {
			fmt.Fprintf(&b, " hdr=%d", e.Hdr)
		}
		b.WriteString(")")
	case kRCA, kRCN, kRCJ:
		fmt.Fprintf(&b, "(%s", idModeName[e.IDMode])
		if e.IDMode != idMatch {
			fmt.Fprintf(&b, ":%d", e.ID)
		}
		if e.K == kRCA && e.EchoOurs {
			b.WriteString(" echo")
		}
		for _, o := range e.Opts {
			fmt.Fprintf(&b, " %s", o)
		}
		b.WriteString(")")
	case kRTR, kRTA, kEcho, kXJ, kPJ:
		fmt.Fprintf(&b, "(id=%s data=%x)", e.idText(), e.Data)
	case kOther:
		fmt.Fprintf(&b, "(code=%d id=%s data=%x)", e.Code, e.idText(), e.Data)
	case kSendPJ:
		fmt.Fprintf(&b, "(proto=%04x data=%x)", e.Proto, e.Data)
	case kLate:
		fmt.Fprintf(&b, "[%s]", *e.Inner)
	case kAssign:
		fmt.Fprintf(&b, "(%v)", net.IP(e.IP[:]))
	}
	return b.String()
}

func (e event) idText() string {
	switch e.IDFrom {
	case fromRequest:
		return "<our-request>"
	case fromOther:
		return fmt.Sprintf("<other-packet:%d>", e.ID%4)
	}
	return fmt.Sprint(e.ID)
}

func (o optSpec) String() string {
	switch o.Sym {
	case symAssigned:
		return fmt.Sprintf("%d=<assigned>", o.Type)
	case symReleased:
		return fmt.Sprintf("%d=<released>", o.Type)
	case symLocalMagic:
		return fmt.Sprintf("%d=<our-magic>", o.Type)
	case symLocalIfID:
		return fmt.Sprintf("%d=<our-ifid>", o.Type)
	case symNear:
		return fmt.Sprintf("%d=<assigned^1>", o.Type)
	}
	return fmt.Sprintf("%d=%x", o.Type, o.Data)
}

func packet(code, id byte, data []byte) []byte {
	b := make([]byte, 4+len(data))
	b[0], b[1] = code, id
	binary.BigEndian.PutUint16(b[2:4], uint16(4+len(data)))
	copy(b[4:], data)
	return b
}

// rawOpt is one option as it lies on the wire (type, length, data).
type rawOpt []byte

// parseOpts is the harness's own RFC 1661 §6 option parser.
// ok=false: some option's length byte is < 2 or runs past the data.
// trailing: a single stray byte after the last option.
func parseOpts(data []byte) (opts []rawOpt, trailing int, ok bool) {
	i := 0
	for i < len(data) {
		if len(data)-i == 1 {
			return opts, 1, true
		}
		l := int(data[i+1])
		if l < 2 || i+l > len(data) {
			return opts, 0, false
		}
		opts = append(opts, rawOpt(data[i:i+l]))
		i += l
	}
	return opts, 0, true
}

// ---------------------------------------------------------------- verdicts

type verdict struct {
	Sig  string
	Msg  string
	Tail bool // found in the silent tail after the last event (the state before the tail is still meaningful)
}

type result struct {
	Verdicts  []verdict
	Trace     []string
	Classes   map[string]bool
	NT        bool
	FP        string // abstract state after the last event, before the tail (BFS)
	Abandoned bool   // a violation stopped the history before its end
	State     string
}

func (r *result) class(c string) { r.Classes[c] = true }

// ---------------------------------------------------------------- monitor + executor

type sentID struct{ code, id byte }

type runner struct {
	c    config
	a    fsm
	pool *fakePool
	rec  *recorder
	res  *result
	seen int // packets of rec already processed

	// what the statement talks about, reconstructed from observations only
	haveReq     bool   // we sent a Configure-Request
	reqID       byte   // identifier of our latest Configure-Request
	reqOpts     []byte // its option bytes
	reqCause    string // kind of the event during which it was sent
	reqIDs      []byte // identifiers of all our requests, oldest first
	peerAcked   bool   // the peer acknowledged reqID since it was sent
	havePeerReq bool   // the peer sent a Configure-Request (that counts, see onRCR)
	ackedPeer   bool   // our reply to the peer's latest Configure-Request was an Ack
	static      net.IP // assigned without a pool (config or SetPeerIP)
	sent        []sentID // code and identifier of EVERY packet we sent, oldest first
	haveTR      bool
	trID        byte // identifier of our latest Terminate-Request

	// retransmission accounting over the current silent stretch (no event but time)
	silentCR, silentTR int
	stretch            string // "configure"/"terminate": stretch began with Up/Open resp. Close that sent the first request
	stop               bool
	lastArm            time.Time // virtual time of our latest Configure-/Terminate-Request (each arms the restart timer)

	idx     int                                                    // index of the event being executed
	onReply func(r *runner, i int, wire []byte, replies []sentPkt) // optional tap after each packet event
}

func (r *runner) sig(kind string) string { return "C11/" + r.c.P.String() + "/" + kind }

func (r *runner) fail(tail bool, kind, f string, a ...any) {
	for _, v := range r.res.Verdicts {
		if v.Sig == r.sig(kind) {
			return // already reported for this history (tail checks repeat every restart period)
		}
	}
	r.res.Verdicts = append(r.res.Verdicts, verdict{Sig: r.sig(kind), Msg: fmt.Sprintf(f, a...), Tail: tail})
	if !tail {
		r.stop = true
		r.res.Abandoned = true
	}
}

func (r *runner) assigned() net.IP {
	if r.pool != nil {
		r.pool.mu.Lock()
		defer r.pool.mu.Unlock()
		return r.pool.assigned
	}
	return r.static
}

func (r *runner) releasedIP() net.IP {
	if r.pool != nil {
		r.pool.mu.Lock()
		defer r.pool.mu.Unlock()
		return r.pool.released
	}
	return nil
}

func stable(s string) bool {
	switch s {
	case "Initial", "Starting", "Closed", "Stopped", "Opened":
		return true
	}
	return false
}

// resolve turns an option spec into wire bytes at delivery time.
func (r *runner) resolve(o optSpec) rawOpt {
	d := o.Data
	switch o.Sym {
	case symAssigned:
		if ip := r.assigned(); ip != nil {
			d = ip.To4()
		} else {
			d = foreign[:]
		}
	case symReleased:
		if ip := r.releasedIP(); ip != nil {
			d = ip.To4()
		} else {
			d = foreign[:]
		}
	case symNear:
		if ip := r.assigned(); ip != nil {
			d = append([]byte(nil), ip.To4()...)
			d[3] ^= 1
		} else {
			d = foreign[:]
		}
	case symLocalMagic:
		d = make([]byte, 4)
		binary.BigEndian.PutUint32(d, r.c.Magic)
		if ours, _, ok := parseOpts(r.reqOpts); ok {
			for _, x := range ours {
				if x[0] == 5 && len(x) == 6 {
					d = x[2:]
				}
			}
		}
	case symLocalIfID:
		d = make([]byte, 8)
		binary.BigEndian.PutUint64(d, r.c.IfID)
		if ours, _, ok := parseOpts(r.reqOpts); ok {
			for _, x := range ours {
				if x[0] == 1 && len(x) == 10 {
					d = x[2:]
				}
			}
		}
	}
	b := make([]byte, 2+len(d))
	b[0], b[1] = o.Type, byte(2+len(d))
	copy(b[2:], d)
	return b
}

func (r *runner) optBytes(e event) []byte {
	var data []byte
	for _, o := range e.Opts {
		data = append(data, r.resolve(o)...)
	}
	switch e.Tail {
	case tailOneByte:
		data = append(data, 0x07)
	case tailShortLen:
		data = append(data, 0x01, e.ID&1)
	case tailOverrun:
		data = append(data, 0x01, 0x09, 0xaa)
	}
	return data
}

func (r *runner) staleID(e event) byte {
	back := 1 + int(e.ID%3)
	if n := len(r.reqIDs); n > back {
		return r.reqIDs[n-1-back]
	}
	return r.reqID - byte(back)
}

// otherID: the identifier of the (ID%4)-th most recent packet we sent whose code is not `not` (distinct identifiers).
func (r *runner) otherID(e event, not byte) (byte, byte, bool) {
	want := int(e.ID % 4)
	seen := map[byte]bool{}
	var last *sentID
	for i := len(r.sent) - 1; i >= 0; i-- {
		p := r.sent[i]
		if p.code == not || seen[p.id] {
			continue
		}
		seen[p.id] = true
		last = &r.sent[i]
		if want == 0 {
			return p.id, p.code, true
		}
		want--
	}
	if last != nil {
		return last.id, last.code, true // fewer than ID%4+1 candidates: the oldest one
	}
	return 0, 0, false
}

func (r *runner) ident(e event) byte {
	switch e.IDMode {
	case idMatch:
		return r.reqID
	case idStale:
		return r.staleID(e)
	case idOther:
		if id, code, ok := r.otherID(e, cCR); ok {
			r.noteCross(e, id, code)
			return id
		}
		return r.staleID(e)
	}
	return e.ID
}

// noteCross labels what an identifier borrowed from another packet of ours meets.
func (r *runner) noteCross(e event, id, code byte) {
	r.res.class("id-src:other-packet")
	if id == r.reqID && r.haveReq {
		return // the borrowed identifier happens to be the one of our latest request
	}
	switch code {
	case cTR, cXJ, cPJ, cEchQ:
		r.res.class("xid:" + e.K.String() + "=id-of-our-" + codeName[code])
		switch e.K {
		case kRCA, kRCN, kRCJ:
			r.res.class("xid:configure-reply-with-id-of-our-non-request-packet")
			switch r.a.State() {
			case "Req-Sent", "Ack-Sent":
				r.res.class("xid:configure-reply-with-foreign-code-id-while-awaiting-reply")
				if e.K == kRCA {
					r.res.class("xid:ack-with-foreign-code-id-while-awaiting-ack")
				}
			}
		}
	}
}

// identFrom resolves the identifier of an incoming Terminate-Ack / Code-Reject / Echo-Reply.
func (r *runner) identFrom(e event) byte {
	switch e.IDFrom {
	case fromRequest:
		if e.K == kRTA && r.haveTR {
			return r.trID
		}
		if r.haveReq {
			return r.reqID
		}
	case fromOther:
		not := byte(cCR)
		if e.K == kRTA {
			not = cTR
		}
		if id, code, ok := r.otherID(e, not); ok {
			r.noteCross(e, id, code)
			return id
		}
	}
	return e.ID
}

// wire builds the bytes of a packet event.
func (r *runner) wire(e event) []byte {
	switch e.K {
	case kRCR:
		p := packet(cCR, e.ID, r.optBytes(e))
		switch e.Hdr {
		case hdrPadded:
			p = append(p, 0xde, 0xad, 0xbe)
		case hdrShort:
			binary.BigEndian.PutUint16(p[2:4], uint16(e.ID%4))
		case hdrOverrun:
			binary.BigEndian.PutUint16(p[2:4], uint16(len(p)+3))
		}
		return p
	case kRCA:
		if e.EchoOurs {
			return packet(cCA, r.ident(e), r.reqOpts)
		}
		return packet(cCA, r.ident(e), r.optBytes(e))
	case kRCN:
		return packet(cCN, r.ident(e), r.optBytes(e))
	case kRCJ:
		return packet(cCJ, r.ident(e), r.optBytes(e))
	case kRTR:
		return packet(cTR, e.ID, e.Data)
	case kRTA:
		return packet(cTA, r.identFrom(e), e.Data)
	case kXJ:
		// a Code-Reject carries a copy of the rejected packet (code, identifier, ...): name one of ours
		id := r.identFrom(e)
		d := e.Data
		if e.IDFrom != fromRaw && len(d) >= 2 {
			d = append([]byte(nil), d...)
			d[1] = id
		}
		return packet(cXJ, id, d)
	case kPJ:
		return packet(cPJ, e.ID, e.Data)
	case kEcho:
		return packet(cEchQ, e.ID, e.Data)
	case kOther:
		return packet(e.Code, r.identFrom(e), e.Data)
	}
	return nil
}

// call runs f against the automaton and turns a panic into a verdict.
func (r *runner) call(what string, f func()) {
	defer func() {
		if p := recover(); p != nil {
			r.fail(false, "panic/"+what, "panic in %s: %v", what, p)
		}
	}()
	f()
}

// settle lets every timer goroutine finish.
func settle() { synctest.Wait() }

// observe processes the packets sent since the last call.  ev is the event being
// executed (timer=true for pure time advances and the delayed-timeout half of kLate).
// It returns the Configure-Ack/Nak/Reject packets seen.
func (r *runner) observe(ev event, wire []byte, timer bool) (replies []sentPkt) {
	pk := r.rec.since(r.seen)
	r.seen += len(pk)
	for _, p := range pk {
		r.sent = append(r.sent, sentID{p.code, p.id})
		switch p.code {
		case cXJ, cPJ, cEchQ:
			r.res.class("orig:" + codeName[p.code])
			if !stable(r.a.State()) {
				r.res.class("orig:" + codeName[p.code] + "/while-negotiating-or-terminating")
			}
		}
		switch p.code {
		case cCR:
			r.haveReq, r.reqID, r.reqOpts, r.peerAcked = true, p.id, p.data, false
			r.reqIDs = append(r.reqIDs, p.id)
			r.reqCause = ev.K.String()
			if timer {
				r.reqCause = "TO"
			}
			r.silentCR++
			r.lastArm = time.Now()
		case cTR:
			r.haveTR, r.trID = true, p.id
			r.res.class("orig:Terminate-Request")
			r.silentTR++
			r.lastArm = time.Now()
		case cCA, cCN, cCJ:
			if ev.K != kRCR || timer {
				r.fail(false, "unsolicited-reply/"+ev.K.String(), "%s id=%d sent although the event was not a Configure-Request", codeName[p.code], p.id)
				return
			}
			replies = append(replies, p)
		case cTA:
			if ev.K == kRTR && !timer && len(wire) >= 2 && p.id != wire[1] {
				r.fail(false, "reply-id/Terminate-Ack", "Terminate-Ack id=%d answers Terminate-Request id=%d", p.id, wire[1])
				return
			}
		case cEchR:
			if ev.K != kEcho || timer {
				r.fail(false, "unsolicited-reply/"+ev.K.String(), "Echo-Reply id=%d sent although the event was not an Echo-Request", p.id)
				return
			}
			if p.id != wire[1] {
				r.fail(false, "reply-id/Echo-Reply", "Echo-Reply id=%d answers Echo-Request id=%d", p.id, wire[1])
				return
			}
		}
	}
	return replies
}

// onRCR applies the reply-shape rules of the statement to the answer to one Configure-Request.
func (r *runner) onRCR(wire []byte, replies []sentPkt) (counted bool) {
	var reqData []byte
	hdrOK := false
	if l := int(binary.BigEndian.Uint16(wire[2:4])); l >= 4 && l <= len(wire) {
		reqData, hdrOK = wire[4:l], true
	}
	opts, trailing, ok := parseOpts(reqData)
	strict := hdrOK && ok && trailing == 0
	reqID := wire[1]
	if len(replies) > 1 {
		r.fail(false, "multiple-replies", "%d Configure-Ack/Nak/Reject packets for one Configure-Request", len(replies))
		return true
	}
	if len(replies) == 0 {
		// A well-formed request that gets no reply is still the peer's latest request (and is not acknowledged).
		// A malformed one that is silently dropped is no request at all (RFC 1661: silently discarded).
		if strict {
			r.havePeerReq, r.ackedPeer = true, false
			r.res.class("rcr:unanswered")
			return true
		}
		r.res.class("rcr:malformed-dropped")
		return false
	}
	counted = true
	rp := replies[0]
	r.havePeerReq, r.ackedPeer = true, rp.code == cCA
	if rp.id != reqID {
		r.fail(false, "reply-id/"+codeName[rp.code], "%s id=%d answers Configure-Request id=%d", codeName[rp.code], rp.id, reqID)
		return
	}
	if !strict {
		r.res.class("rcr:malformed-answered")
	}
	switch rp.code {
	case cCA:
		r.res.class("reply:ack")
		want := reqData
		if trailing == 1 {
			want = reqData[:len(reqData)-1] // the stray byte is not an option; "the request's options" are what precedes it
		}
		if !bytes.Equal(rp.data, want) {
			r.fail(false, "ack-options-changed", "Configure-Ack options %x differ from the request's %x", rp.data, want)
			return
		}
		if r.c.P == pIPCP {
			for _, o := range opts {
				if o[0] == pppoe.IPCPOptIPAddress && len(o) == 6 {
					addr := net.IP(o[2:6])
					as := r.assigned()
					switch {
					case as != nil && as.Equal(addr):
						r.res.class("ipcp:ack-assigned-address")
					case as == nil && r.releasedIP() != nil && r.releasedIP().Equal(addr):
						r.fail(false, "ack-released-address", "IPCP acknowledged %v, which the session gave back to the pool (nothing is assigned now)", addr)
						return
					case as == nil:
						r.fail(false, "ack-unassigned-address", "IPCP acknowledged %v although no address is assigned to the session", addr)
						return
					default:
						r.fail(false, "ack-foreign-address", "IPCP acknowledged %v although the session's address is %v", addr, as)
						return
					}
				}
			}
		}
	case cCJ:
		r.res.class("reply:reject")
		ro, tr, rok := parseOpts(rp.data)
		if !rok || tr != 0 {
			r.fail(false, "reply-malformed", "Configure-Reject options %x do not parse", rp.data)
			return
		}
		left := append([]rawOpt(nil), opts...)
	next:
		for _, o := range ro {
			for i, q := range left {
				if bytes.Equal(o, q) {
					left = append(left[:i:i], left[i+1:]...)
					continue next
				}
			}
			r.fail(false, "reject-option-not-in-request", "Configure-Reject lists %x, which is not an option of the request %x", []byte(o), reqData)
			return
		}
	case cCN:
		r.res.class("reply:nak")
		no, tr, nok := parseOpts(rp.data)
		if !nok || tr != 0 {
			r.fail(false, "reply-malformed", "Configure-Nak options %x do not parse", rp.data)
			return
		}
		cnt := map[byte]int{}
		for _, o := range opts {
			cnt[o[0]]++
		}
		for _, o := range no {
			if cnt[o[0]] == 0 {
				r.fail(false, "nak-option-type-not-in-request", "Configure-Nak lists option type %d more often than the request %x has it", o[0], reqData)
				return
			}
			cnt[o[0]]--
		}
	}
	return
}

func (r *runner) noteState() string {
	s := r.a.State()
	r.res.class("reached:" + s)
	if s == "Ack-Rcvd" || s == "Ack-Sent" || s == "Opened" {
		r.res.NT = true
	}
	return s
}

// invariants that must hold whenever the automaton is observable.
func (r *runner) checkOpened(ev event, after string) {
	if r.stop {
		return
	}
	op := r.a.IsOpened()
	st := r.a.State()
	if op != (st == "Opened") {
		r.fail(false, "isopened-disagrees-with-state", "IsOpened()=%v while GetState()=%s", op, st)
		return
	}
	if !op {
		return
	}
	if !(r.haveReq && r.peerAcked) {
		r.fail(false, "opened-without-peer-ack/"+after+"/request-sent-on-"+r.reqCause,
			"Opened after %s although the peer has not acknowledged our latest Configure-Request (id=%d, sent=%v)", ev, r.reqID, r.haveReq)
		return
	}
	if !(r.havePeerReq && r.ackedPeer) {
		r.fail(false, "opened-without-own-ack/"+after,
			"Opened after %s although our reply to the peer's latest Configure-Request was not an Ack (peer request seen=%v)", ev, r.havePeerReq)
	}
}

// counts checks the retransmission bounds of the current silent stretch.
func (r *runner) counts(tail bool, before, after string) {
	if r.stop {
		return
	}
	if r.silentCR > r.c.MaxConf+1 {
		r.fail(tail, "configure-retransmissions/too-many", "%d Configure-Requests sent without any input; configured %d", r.silentCR, r.c.MaxConf)
		return
	}
	if r.silentTR > r.c.MaxTerm+1 {
		r.fail(tail, "terminate-retransmissions/too-many", "%d Terminate-Requests sent without any input; configured %d", r.silentTR, r.c.MaxTerm)
		return
	}
	if !stable(before) && stable(after) {
		// gave up during silence
		if r.stretch == "configure" && after == "Stopped" && r.silentCR < r.c.MaxConf {
			r.fail(tail, "configure-retransmissions/too-few", "gave up after %d Configure-Requests; configured %d", r.silentCR, r.c.MaxConf)
			return
		}
		if r.stretch == "terminate" && after == "Closed" && r.silentTR < r.c.MaxTerm {
			r.fail(tail, "terminate-retransmissions/too-few", "gave up after %d Terminate-Requests; configured %d", r.silentTR, r.c.MaxTerm)
			return
		}
	}
}

func (r *runner) advance(d time.Duration, tail bool, label string) {
	before := r.a.State()
	time.Sleep(d)
	settle()
	n0 := r.rec.len() - r.seen
	r.observe(event{K: kTO}, nil, true)
	after := r.noteState()
	if n0 > 0 {
		r.res.class("timer:sent")
	}
	r.res.Trace = append(r.res.Trace, fmt.Sprintf("%s -> %s", label, after))
	r.checkOpened(event{K: kTO}, "TO")
	r.counts(tail, before, after)
}

func (r *runner) step(e event) {
	switch e.K {
	case kTO:
		r.advance(r.c.RT, false, "TO")
		return
	case kHalf:
		r.advance(r.c.RT/2, false, "Half")
		return
	}
	before := r.a.State()
	wasOpened := before == "Opened"
	ti := len(r.res.Trace)
	r.res.Trace = append(r.res.Trace, e.String())
	defer func() { r.res.Trace[ti] += " -> " + r.a.State() }()
	// a non-timer event starts a new stretch
	r.silentCR, r.silentTR, r.stretch = 0, 0, ""

	late := false
	x := e
	if e.K == kLate {
		x = *e.Inner
		late = r.a.TakeTimer() // false: no timer was pending, the event degenerates to Inner alone
		if late {
			r.res.class("late-timeout:taken")
		}
	}
	var wire []byte
	switch x.K {
	case kUp:
		r.call("Up", r.a.Up)
	case kDown:
		r.call("Down", r.a.Down)
	case kOpen:
		r.call("Open", r.a.Open)
	case kClose:
		r.call("Close", r.a.Close)
	case kAssign:
		ip := net.IP(append([]byte(nil), x.IP[:]...)) // x.IP is set for every kAssign
		r.call("SetPeerIP", func() { r.a.(ipcpA).SetPeerIP(ip) })
		r.static = ip
	case kSendEcho:
		// only LCP originates Echo-Requests (keepalive.go); the event is a no-op for the NCP automata
		if l, ok := r.a.(lcpA); ok {
			r.call("SendEchoRequest", func() { l.SendEchoRequest() })
		}
	case kSendPJ:
		if l, ok := r.a.(lcpA); ok {
			d := append([]byte(nil), x.Data...)
			r.call("SendProtocolReject", func() { l.SendProtocolReject(x.Proto, d) })
		}
	default:
		wire = r.wire(x)
		if x.K == kRCA && r.haveReq && wire[1] == r.reqID {
			r.peerAcked = true // before looking at what the automaton sends in reaction
			r.res.class("rca:matching")
		} else if x.K == kRCA {
			r.res.class("rca:stale")
		}
		switch x.K {
		case kRCA, kRCN, kRCJ:
			switch x.IDMode {
			case idMatch:
				r.res.class("id-src:latest-request")
			case idRaw:
				r.res.class("id-src:fresh")
			}
		case kRTA, kXJ, kOther:
			switch x.IDFrom {
			case fromRequest:
				r.res.class("id-src:latest-request")
			}
		}
		what := x.K.String()
		if x.K == kEcho && len(x.Data) < 4 {
			what = "Echo-short"
		}
		r.call(what, func() { _ = r.a.ReceivePacket(wire) })
	}
	settle()
	if r.stop {
		return
	}
	replies := r.observe(x, wire, false)
	if r.stop {
		return
	}
	if r.onReply != nil {
		r.onReply(r, r.idx, wire, replies)
	}
	rcrCounted := false
	if x.K == kRCR {
		rcrCounted = r.onRCR(wire, replies)
		if r.stop {
			return
		}
	}
	xCR, xTR := r.silentCR, r.silentTR // requests sent by the event itself (not by a delayed timeout)
	mid := r.noteState()
	r.checkOpened(x, x.K.String())
	if r.stop {
		return
	}
	if late {
		r.call("timeout", r.a.Timeout)
		settle()
		if r.stop {
			return
		}
		r.observe(x, wire, true)
		if r.stop {
			return
		}
		r.checkOpened(e, x.K.String()+"+TO")
	}
	after := r.noteState()
	// "any renegotiation, terminate or lower-layer-down event leaves the opened state"
	leaves := false
	switch x.K {
	case kRTR, kDown, kClose:
		leaves = true
	case kXJ:
		// RFC 1661 (RXJ-) also leaves Opened when the peer rejects the Configure-Request code itself.  The
		// statement does not name that event, and the two NCP automata ignore code 7 altogether, so it is
		// recorded as a class, not asserted.
		if wasOpened && len(x.Data) > 0 && x.Data[0] == cCR {
			if after == "Opened" {
				r.res.class("critical-code-reject:stays-opened")
			} else {
				r.res.class("critical-code-reject:leaves-opened")
			}
		}
	case kRCR:
		leaves = wasOpened && rcrCounted
	}
	if leaves && (mid == "Opened" || after == "Opened") {
		r.fail(false, "still-opened-after/"+x.K.String(), "automaton is Opened after %s (was %s)", e, before)
		return
	}
	// stretch bookkeeping for the lower bounds
	if (x.K == kUp || x.K == kOpen) && xCR > 0 {
		r.stretch = "configure"
	}
	if x.K == kClose && xTR > 0 {
		r.stretch = "terminate"
	}
	r.counts(false, before, after)
}

// fingerprint abstracts the joint state of automaton and monitor (BFS pruning).
func (r *runner) fingerprint(timerPending bool) string {
	as, rel := r.assigned() != nil, r.releasedIP() != nil
	phase := time.Duration(0)
	if timerPending && !r.lastArm.IsZero() {
		phase = time.Since(r.lastArm) % r.c.RT
	}
	// which of our packets carries the most recently consumed identifier of our own counter: the latest Configure-Request
	// ("") or a later packet of another code (an Ack for THAT identifier must not count as an Ack of the request)
	lastOrig := ""
	for i := len(r.sent) - 1; i >= 0; i-- {
		if c := r.sent[i].code; c == cCR || c == cTR || c == cXJ || c == cPJ || c == cEchQ {
			if c != cCR {
				lastOrig = codeName[c]
			}
			break
		}
	}
	return fmt.Sprintf("%s|rc=%d|t=%v+%s|req=%v,%v|peer=%v,%v|sil=%d,%d,%s|addr=%v,%v|lastorig=%s", r.a.State(), r.a.RestartCount(), timerPending, phase,
		r.haveReq, r.peerAcked, r.havePeerReq, r.ackedPeer, r.silentCR, r.silentTR, r.stretch, as, rel, lastOrig)
}

type runOpts struct {
	tail  bool // after the last event keep the peer silent and require termination
	probe bool // instead of the tail, find out whether a restart timer is pending (destroys it) and fingerprint
}

// run executes one history against a fresh automaton inside a synctest bubble.
func run(t *testing.T, c config, evs []event, o runOpts) *result {
	return runWith(t, c, evs, o, nil)
}

func runWith(t *testing.T, c config, evs []event, o runOpts, tap func(r *runner, i int, wire []byte, replies []sentPkt)) *result {
	res := &result{Classes: map[string]bool{}}
	synctest.Test(t, func(*testing.T) {
		rec := &recorder{}
		a, pool := build(c, rec)
		r := &runner{c: c, a: a, pool: pool, rec: rec, res: res, onReply: tap}
		if c.P == pIPCP && c.AddrMode == "static" {
			r.static = net.IP(c.Static[:])
		}
		defer func() {
			// leave nothing behind: Down stops the restart timer
			func() {
				defer func() { _ = recover() }()
				a.Down()
			}()
			settle()
		}()
		for i, e := range evs {
			r.idx = i
			r.step(e)
			if r.stop {
				break
			}
		}
		res.State = a.State()
		if r.stop {
			return
		}
		if o.probe {
			res.FP = r.fingerprint(a.TakeTimer())
			return
		}
		if !o.tail {
			return
		}
		// The peer falls silent.  Bounded liveness: within (max+3) restart periods the automaton
		// must have given up (or be in a state that needs no timer).
		horizon := c.MaxConf
		if c.MaxTerm > horizon {
			horizon = c.MaxTerm
		}
		horizon += 3
		start := r.rec.len()
		for i := 0; i < horizon && !r.stop; i++ {
			if stable(a.State()) && i > 0 {
				break
			}
			r.advance(c.RT, true, "TO*")
		}
		if r.stop {
			return
		}
		if s := a.State(); !stable(s) {
			if r.rec.len() == start {
				r.fail(true, "no-termination/silent-in-"+s, "peer silent for %d restart periods: automaton still in %s and sent nothing (no restart timer running)", horizon, s)
			} else {
				r.fail(true, "no-termination/retransmitting-in-"+s, "peer silent for %d restart periods: automaton still in %s after %d packets", horizon, s, r.rec.len()-start)
			}
		} else {
			res.class("tail:" + s)
		}
	})
	return res
}

// report turns verdicts into test failures (outside the bubble).  It returns true if a
// listed known finding was hit.
func report(t vstat.Fataler, c config, evs []event, res *result) bool {
	t.Helper()
	hit := false
	for _, v := range res.Verdicts {
		if vstat.Fail(t, v.Sig, "%s\nconfig: %s\nhistory: %s", v.Msg, c, strings.Join(res.Trace, "; ")) {
			hit = true
		}
	}
	return hit
}

func evString(evs []event) string {
	s := make([]string, len(evs))
	for i, e := range evs {
		s[i] = e.String()
	}
	return strings.Join(s, " ")
}
