package c01

// dhcp.Pool driven the way pkg/dhcp/server.go drives it: every mutating method the server calls, each under the
// precondition the calling handler establishes first. The harness keeps what the server's lease table would hold
// (which client has an acknowledged lease, and on which address) because the preconditions are stated in terms of it:
//
//	DISCOVER  (handleDiscover)   Allocate(mac)            any client without an unexpired lease
//	REQUEST   (handleRequest)    Claim(mac, ip)           client has NO lease; ip inside the pool's network (pool.Contains):
//	                                                      its own offer, somebody else's address, a free one, or one
//	                                                      the pool never hands out (network/broadcast/gateway/reserved)
//	REQUEST via circuit-id       Reassign(oldMAC, newMAC) oldMAC has a lease, newMAC has none (it may hold an offer)
//	RELEASE / lease expiry       Release(lease.IP)        client has a lease
//	DECLINE                      Decline(mac, ip)         client has a lease on ip, or (no lease) AllocatedTo(mac, ip)
//	offer given up               ReleaseClient(mac)       client has no lease (only on trees that have this method)
//
// The reference model is the one of model_test.go (who was handed what, from return values; for the methods that
// return nothing, the effect their doc comment states). After every step the pool's own tables (verif accessor
// VerifState, and AllocatedTo as its public lookup) are compared with the model: an address must never be allocated
// and free at once, never be allocated to two clients, never be in the free list twice, and every client the model
// says holds an address must hold exactly that address.

import (
	"encoding/binary"
	"fmt"
	"net"
	"testing"
	"time"

	"github.com/codelaboratoryltd/bng/pkg/dhcp"
	"pgregory.net/rapid"

	"bngverif/internal/pools"
	"bngverif/internal/vstat"
)

type d4Kind int

const (
	d4Discover d4Kind = iota
	d4Request
	d4Reassign
	d4Release
	d4Decline
	d4GiveUpOffer
)

type d4Op struct {
	K d4Kind
	S int // subject client
	T int // second client (reassign target) / target selector
	C int // target class for request/decline
	V int // index selector
}

func genD4Ops() *rapid.Generator[[]d4Op] {
	bag := []d4Kind{d4Discover, d4Discover, d4Discover, d4Discover, d4Discover, d4Request, d4Request, d4Request, d4Request, d4Request, d4Request,
		d4Reassign, d4Reassign, d4Reassign, d4Release, d4Release, d4Decline, d4Decline, d4Decline, d4GiveUpOffer, d4GiveUpOffer}
	one := rapid.Custom(func(t *rapid.T) d4Op {
		return d4Op{
			K: rapid.SampledFrom(bag).Draw(t, "kind"),
			S: rapid.IntRange(0, len(subs)-1).Draw(t, "client"),
			T: rapid.IntRange(0, len(subs)-1).Draw(t, "other"),
			C: rapid.IntRange(0, 9).Draw(t, "targetClass"),
			V: rapid.IntRange(0, 63).Draw(t, "idx"),
		}
	})
	return rapid.SliceOfN(one, 3, 48)
}

// d4State checks the pool's own tables against the model. Returns false if the case must stop.
func d4State(ft fataler, m *model, p *dhcp.Pool, inRange func(string) error) {
	if m.dead {
		return
	}
	st := p.VerifState()
	byVal := map[string]string{}
	for _, s := range subs { // fixed order
		mac := pools.MacOf(s).String()
		got := st.Allocated[mac]
		if want, ok := m.has[s]; ok && got != want {
			m.fail(ft, "lookup-mismatch", "pool table has %q for %s, the client was handed %q and never gave it up", got, s, want)
			return
		}
		if got == "" {
			continue
		}
		if o, dup := byVal[got]; dup {
			m.fail(ft, "duplicate-in-state", "the pool's allocated table has %s for both %s and %s", got, o, s)
			return
		}
		byVal[got] = s
		if err := inRange(got); err != nil {
			m.fail(ft, "out-of-range", "allocated table: %s -> %s: %v", s, got, err)
			return
		}
	}
	free := map[string]bool{}
	for _, v := range st.Available {
		if free[v] {
			m.fail(ft, "free-list-duplicate", "%s is in the free list twice (two clients will be handed it)", v)
			return
		}
		free[v] = true
		if o, held := byVal[v]; held {
			m.fail(ft, "held-and-free", "%s is allocated to %s and in the free list at once", v, o)
			return
		}
		if o, held := m.holder[v]; held {
			m.fail(ft, "held-and-free", "%s was handed to %s, who never gave it up, and is in the free list", v, o)
			return
		}
	}
	// the pool's public lookup must agree with what clients were told
	for _, s := range subs {
		if want, ok := m.has[s]; ok && !p.AllocatedTo(pools.MacOf(s), net.ParseIP(want)) {
			m.fail(ft, "lookup-mismatch", "AllocatedTo(%s,%s)=false although the client was handed it and never gave it up", s, want)
			return
		}
	}
}

// d4Run executes one generated history.
func d4Run(ft fataler, cfg pools.DHCP4Cfg, ops []d4Op) (*model, []string) {
	p, err := dhcp.NewPool(dhcp.PoolConfig{ID: 1, Name: "p", Network: cfg.CIDR, Gateway: cfg.Gateway, LeaseTime: time.Hour,
		ReservedStart: cfg.ReservedStart, ReservedEnd: cfg.ReservedEnd})
	if err != nil {
		ft.Fatalf("generator produced a configuration the constructor rejects: %v", err)
	}
	_, ipn, _ := net.ParseCIDR(cfg.CIDR)
	inRange := func(v string) error { return pools.RangeCheck(ipn, -1, v) }
	m := newModel("dhcp4")
	m.logf("new dhcp.Pool(%s,gw=%s,reserved=%d/%d)", cfg.CIDR, cfg.Gateway, cfg.ReservedStart, cfg.ReservedEnd)
	lease := map[string]string{} // the server's lease table: client -> acknowledged address
	ones, _ := ipn.Mask.Size()
	size := 1 << uint(32-ones)
	addrAt := func(i int) string {
		ip := make(net.IP, 4)
		binary.BigEndian.PutUint32(ip, binary.BigEndian.Uint32(ipn.IP.To4())+uint32(i))
		return ip.String()
	}
	giveUp, hasGiveUp := any(p).(interface {
		ReleaseClient(net.HardwareAddr) net.IP
	})
	cls := map[string]bool{}
	// pick returns the idx-th client (in alphabet order) satisfying ok, or "" if none does
	pick := func(idx int, ok func(s string) bool) string {
		var c []string
		for _, s := range subs {
			if ok(s) {
				c = append(c, s)
			}
		}
		if len(c) == 0 {
			return ""
		}
		return c[idx%len(c)]
	}
	noLease := func(s string) bool { return lease[s] == "" }
	hasLease := func(s string) bool { return lease[s] != "" }
	for _, op := range ops {
		if m.dead {
			break
		}
		s := subs[op.S]
		switch op.K {
		case d4Discover:
			ip, err := p.Allocate(pools.MacOf(s))
			m.logf("discover(%s)=%v,%s", s, ip, okerr(err))
			if err != nil {
				if held, holds := m.has[s]; holds {
					m.fail(ft, "reask-failed", "Allocate(%s) failed (%v) although it holds %s", s, err, held)
				}
				continue
			}
			if _, holds := m.has[s]; holds {
				cls["reask"] = true
			}
			cls["discover"] = true
			m.onAlloc(ft, s, ip.String(), inRange, nil)
		case d4Request:
			// handleRequest reaches Claim only for a client without a lease
			offered := func(x string) bool { return noLease(x) && m.has[x] != "" }
			var target, tclass string
			switch {
			case op.C <= 4: // the address it was offered (the ordinary DISCOVER/OFFER/REQUEST exchange)
				if s = pick(op.S, offered); s != "" {
					target, tclass = m.has[s], "own-offer"
				}
			case op.C <= 6: // an address somebody else holds (offered or leased)
				if s = pick(op.S, offered); s == "" || op.V%3 == 0 {
					s = pick(op.S, noLease)
				}
				if o := pick(op.T, func(x string) bool { return x != s && m.has[x] != "" }); s != "" && o != "" {
					target, tclass = m.has[o], "foreign"
				}
			case op.C == 7: // network / broadcast / gateway: inside the network, never allocatable
				if s = pick(op.S, noLease); s != "" {
					target, tclass = []string{addrAt(0), addrAt(size - 1), cfg.Gateway}[op.V%3], "unallocatable"
					if !ipn.Contains(net.ParseIP(target)) {
						continue // gateway outside the network: handleRequest NAKs "IP not in pool" before Claim
					}
				}
			}
			if tclass == "" { // any host address by index: free, reserved, declined or held
				if s = pick(op.S, noLease); s == "" {
					continue
				}
				target, tclass = addrAt(1+op.V%max(1, size-2)), "by-index"
			}
			holdsOther := m.has[s] != "" && m.has[s] != target
			ok := p.Claim(pools.MacOf(s), net.ParseIP(target))
			m.logf("request(%s,%s)=%v", s, target, ok)
			cls["claim"] = true
			cls["claim:"+tclass] = true
			if !ok {
				cls["claim-refused"] = true
				if holdsOther {
					cls["claim-refused-while-holding"] = true
				}
				if m.has[s] == target {
					m.fail(ft, "reask-failed", "Claim(%s,%s) refused although the client was handed that address and never gave it up", s, target)
				}
				continue // NAK: nothing changes
			}
			cls["claim-granted"] = true
			if holdsOther {
				m.onFree(s) // the pool moved the client (documented behaviour is to refuse; either is consistent)
			}
			m.onAlloc(ft, s, target, inRange, nil)
			lease[s] = target
		case d4Reassign:
			// replacement CPE: the circuit's lease belongs to oldMAC, the REQUEST comes from a MAC without a lease
			old := pick(op.S, hasLease)
			if old == "" {
				continue
			}
			nw := ""
			if op.V%2 == 0 { // the replacement CPE already DISCOVERed: it holds an offer of its own
				nw = pick(op.T, func(x string) bool { return x != old && noLease(x) && m.has[x] != "" })
			}
			if nw == "" {
				nw = pick(op.T, func(x string) bool { return x != old && noLease(x) })
			}
			if nw == "" {
				continue
			}
			ip := lease[old]
			if m.has[nw] == "" && op.V%2 == 0 {
				// the replacement CPE first DISCOVERs without relay information and is offered an address of its own
				if off, err := p.Allocate(pools.MacOf(nw)); err == nil {
					m.logf("discover(%s)=%v,ok", nw, off)
					m.onAlloc(ft, nw, off.String(), inRange, nil)
					if m.dead {
						break
					}
				}
			}
			prev := m.has[nw]
			p.Reassign(pools.MacOf(old), pools.MacOf(nw))
			m.logf("reassign(%s->%s) [%s]", old, nw, ip)
			cls["reassign"] = true
			if prev != "" {
				cls["reassign-new-had-offer"] = true
			}
			delete(lease, old)
			m.onFree(old)
			if prev != "" && prev != ip {
				m.onFree(nw) // "An address newMAC held before goes back to the pool"
			}
			m.onAlloc(ft, nw, ip, inRange, nil)
			lease[nw] = ip
		case d4Release:
			// RELEASE from the client or expiry of its lease: the server releases lease.IP
			if s = pick(op.S, hasLease); s == "" {
				continue
			}
			p.Release(net.ParseIP(lease[s]))
			m.logf("release(%s) [%s]", s, lease[s])
			cls["release"] = true
			delete(lease, s)
			m.onFree(s)
		case d4Decline:
			if op.C%2 == 0 {
				// DECLINE of the leased address
				if s = pick(op.S, hasLease); s == "" {
					continue
				}
				p.Decline(pools.MacOf(s), net.ParseIP(lease[s]))
				m.logf("decline(%s) [lease %s]", s, lease[s])
				cls["decline"], cls["decline:lease"] = true, true
				delete(lease, s)
				m.onFree(s)
				continue
			}
			// DECLINE from a client without a lease: acted on only if the pool says the address is its offer
			if s = pick(op.S, func(x string) bool { return noLease(x) && (op.C%4 == 3 || m.has[x] != "") }); s == "" {
				continue
			}
			target := m.has[s]
			if op.C%4 == 3 || target == "" {
				target = addrAt(1 + op.V%max(1, size-2)) // an address of the client's choosing
			}
			if !p.AllocatedTo(pools.MacOf(s), net.ParseIP(target)) {
				m.logf("decline(%s,%s) ignored", s, target)
				if m.has[s] == target {
					m.fail(ft, "lookup-mismatch", "AllocatedTo(%s,%s)=false although the client was handed it", s, target)
				}
				cls["decline:ignored"] = true
				continue
			}
			if m.has[s] != target {
				m.fail(ft, "duplicate-per-lookup", "AllocatedTo(%s,%s)=true, the client was never handed that address (it holds %q; %s is with %q)",
					s, target, m.has[s], target, m.holder[target])
				continue
			}
			p.Decline(pools.MacOf(s), net.ParseIP(target))
			m.logf("decline(%s) [offer %s]", s, target)
			cls["decline"], cls["decline:offer"] = true, true
			m.onFree(s)
		case d4GiveUpOffer:
			if !hasGiveUp {
				continue
			}
			if s = pick(op.S, func(x string) bool { return noLease(x) }); s == "" {
				continue
			}
			ip := giveUp.ReleaseClient(pools.MacOf(s))
			m.logf("giveUpOffer(%s)=%v", s, ip)
			if ip != nil {
				cls["give-up-offer"] = true
				if held := m.has[s]; held != ip.String() {
					m.fail(ft, "lookup-mismatch", "ReleaseClient(%s) returned %s, the client was handed %q", s, ip, held)
					continue
				}
			}
			m.onFree(s)
		}
		d4State(ft, m, p, inRange)
	}
	out := []string{"geom:" + cfg.Class}
	for _, c := range []string{"discover", "reask", "claim", "claim:own-offer", "claim:foreign", "claim:unallocatable", "claim:by-index",
		"claim-granted", "claim-refused", "claim-refused-while-holding", "reassign", "reassign-new-had-offer", "release",
		"decline", "decline:lease", "decline:offer", "decline:ignored", "give-up-offer"} {
		if cls[c] {
			out = append(out, "d4:"+c)
		}
	}
	return m, out
}

// TestPropDHCP4Server: dhcp.Pool under the full call discipline of the DHCPv4 server.
func TestPropDHCP4Server(t *testing.T) {
	vstat.Checks(3000, 60000)
	rapid.Check(t, func(rt *rapid.T) {
		cfg := pools.GenDHCP4().Draw(rt, "cfg")
		ops := genD4Ops().Draw(rt, "ops")
		m, cls := d4Run(rt, cfg, ops)
		m.record(append(cls, "machine:dhcp4-server")...)
	})
}

func (o d4Op) String() string { return fmt.Sprintf("%d(%d,%d,%d,%d)", o.K, o.S, o.T, o.C, o.V) }
