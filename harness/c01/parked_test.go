package c01

// Harness-owned schedules for the store-backed allocators: a chosen store write is HELD BACK at a gate inside the
// harness store (it is in flight: nothing applied yet), other generated calls run - or queue up behind the
// allocator's lock - meanwhile, then the gate opens and the write is applied or refused.
//
// Generated per lane: pool geometry, a sequential prelude (so that the held-back call can be a first allocation, a
// re-ask by a holder, a release by a holder ...), which call is held back and through which entry point, whether the
// held-back write finally succeeds or fails, a second held-back write (other subscriber) and the order the gates
// open in, and 1-3 concurrent callers with their own op lists: each caller owns its subscribers (so every
// subscriber's history is sequential and its outcome does not depend on the interleaving), plus retransmissions of
// the held-back request itself (same subscriber, same kind of call - a client that repeats its DISCOVER).
//
// Timing tolerance: on a tree that keeps its lock across the store write the other callers simply block until the
// gate opens. The runner therefore waits for "every other caller returned OR a short real-time grace elapsed",
// opens the gates, joins everything and judges ONLY returned values and the final state:
//   - every successful allocation is in range; all successful answers to one subscriber between two of its
//     releases are the same value; a holder's re-ask or release fails only if its own write was refused;
//   - at the end every subscriber holds the last value it was given and has not released: the allocator's lookup
//     says so, no value is held by two subscribers, the reverse lookup names the holder;
//   - epilogue (sequential): every holder asks again and gets the same value, two fresh subscribers allocate and
//     get values nobody holds.
// The grace only bounds how long a case waits; no verdict depends on what happened within it. Several independent
// lanes run side by side in one case and share one grace period (cost per lane: a few goroutines + grace/lanes).

import (
	"fmt"
	"os"
	"strings"
	"sync"
	"testing"
	"time"

	"pgregory.net/rapid"

	"bngverif/internal/pools"
	"bngverif/internal/vstat"
)

const (
	parkGrace   = 25 * time.Millisecond
	parkJoinMax = 90 * time.Second
)

type pkKind int

const (
	pkAlloc pkKind = iota
	pkAllocAlt
	pkRelease
	pkRenew
	pkRetransmit // meanwhile only: repeat the held-back request for the held-back subscriber
)

var pkNames = [...]string{"alloc", "allocAlt", "release", "renew", "retransmit"}

type pkOp struct {
	K pkKind
	S int // index into the caller's own subscribers
}

type pkLane struct {
	impl     string // dist-session | dist-lease | poolalloc
	cidr     string
	unit     int
	class    string
	prelude  []pkOp // S indexes subs directly
	parked   pkOp   // S indexes subs directly
	fail     bool   // outcome of the held-back write
	second   int    // -1, or the subscriber whose next write is held back too
	secFail  bool
	secFirst bool // open the second gate before the first
	callers  [][]pkOp
}

func (l pkLane) String() string {
	var sb strings.Builder
	fmt.Fprintf(&sb, "%s %s/%d prelude=", l.impl, l.cidr, l.unit)
	for _, o := range l.prelude {
		fmt.Fprintf(&sb, "%s(s%d) ", pkNames[o.K], o.S)
	}
	fmt.Fprintf(&sb, "| held=%s(s%d) fail=%v second=%d/%v/%v |", pkNames[l.parked.K], l.parked.S, l.fail, l.second, l.secFail, l.secFirst)
	for i, c := range l.callers {
		fmt.Fprintf(&sb, " c%d:", i)
		for _, o := range c {
			fmt.Fprintf(&sb, "%s(%d)", pkNames[o.K], o.S)
		}
	}
	return sb.String()
}

func genLane(impl string) *rapid.Generator[pkLane] {
	return rapid.Custom(func(t *rapid.T) pkLane {
		l := pkLane{impl: impl, second: -1}
		if impl == "dist-lease" {
			l.cidr, l.unit, l.class = pools.GenEpochNet(false).Draw(t, "net"), 32, "lease"
		} else {
			g := pools.GenGeom(true, false).Draw(t, "geometry")
			l.cidr, l.unit, l.class = g.CIDR, g.Unit, g.Class
		}
		n := rapid.IntRange(0, 8).Draw(t, "preludeLen")
		for i := 0; i < n; i++ {
			k := pkAlloc
			if rapid.IntRange(0, 3).Draw(t, "preRelease") == 0 {
				k = pkRelease
			}
			l.prelude = append(l.prelude, pkOp{k, rapid.IntRange(0, len(subs)-1).Draw(t, "preSub")})
		}
		kinds := []pkKind{pkAlloc, pkAlloc, pkAlloc, pkAllocAlt, pkAllocAlt, pkRelease, pkRelease}
		if impl == "dist-lease" {
			kinds = append(kinds, pkRenew)
		}
		l.parked = pkOp{rapid.SampledFrom(kinds).Draw(t, "heldKind"), rapid.IntRange(0, len(subs)-1).Draw(t, "heldSub")}
		l.fail = rapid.Bool().Draw(t, "heldFails")
		if rapid.IntRange(0, 2).Draw(t, "secondGate") == 0 {
			l.second = (l.parked.S + 1 + rapid.IntRange(0, len(subs)-2).Draw(t, "secondSub")) % len(subs)
			l.secFail = rapid.Bool().Draw(t, "secondFails")
			l.secFirst = rapid.Bool().Draw(t, "secondFirst")
		}
		nc := rapid.IntRange(1, 3).Draw(t, "callers")
		mk := []pkKind{pkAlloc, pkAlloc, pkAllocAlt, pkRelease, pkRelease, pkRetransmit, pkRetransmit, pkRetransmit}
		if impl == "dist-lease" {
			mk = append(mk, pkRenew)
		}
		for c := 0; c < nc; c++ {
			k := rapid.IntRange(1, 4).Draw(t, "callerOps")
			var ops []pkOp
			for i := 0; i < k; i++ {
				ops = append(ops, pkOp{rapid.SampledFrom(mk).Draw(t, "kind"), rapid.IntRange(0, 7).Draw(t, "own")})
			}
			l.callers = append(l.callers, ops)
		}
		return l
	})
}

// pkSub is the sequential history of one subscriber (model fed by return values only).
type pkSub struct {
	mu       sync.Mutex // the held-back subscriber is touched by several callers
	holds    string
	injected bool // a write of this subscriber was refused by the harness (gate opened with failure)
}

type pkRun struct {
	l      pkLane
	f      pools.Factory
	p      pools.Pool
	alt    pools.AltEntry
	renew  pools.Renewer
	st     map[string]*pkSub
	g1, g2 *pools.Gate
	fe     firstErr
	held   sync.WaitGroup // the held-back call
	others sync.WaitGroup // the concurrent callers
	cls    map[string]bool
	// releases of the held-back subscriber are only ever issued by the held-back call and its retransmissions, and
	// allocations only by allocations: its final holding is determined without knowing the interleaving
	heldAllocs   []string // successful answers to the held-back subscriber during the concurrent phase
	heldReleased bool
	heldMu       sync.Mutex
}

func (r *pkRun) sub(s string) *pkSub {
	if x, ok := r.st[s]; ok {
		return x
	}
	x := &pkSub{}
	r.st[s] = x
	return x
}

func newPkRun(l pkLane) *pkRun {
	r := &pkRun{l: l, st: map[string]*pkSub{}, cls: map[string]bool{}}
	switch l.impl {
	case "dist-session":
		r.f = pools.DistFactory(l.cidr, l.unit, false, 0, false, l.class, nil)
	case "dist-lease":
		// outside a synctest bubble: the epoch ticker (1 h) never fires within a case, nothing waits on virtual time
		r.f = pools.DistFactory(l.cidr, 32, true, 1, false, l.class, nil)
	default:
		r.f = pools.PoolAllocFactory(l.cidr, l.unit, l.class, true)
	}
	r.p = r.f.New(0)
	r.alt, _ = r.p.(pools.AltEntry)
	r.renew, _ = r.p.(pools.Renewer)
	for _, s := range subs {
		r.sub(s)
	}
	return r
}

// sig: the violation kind, plus the shape of the schedule that matters for telling findings apart - whether requests
// of ONE subscriber overlapped (retransmission) or only requests of different subscribers did.
func (r *pkRun) sig(kind string) string {
	sig := "C01/" + r.l.impl + "/held-write/" + kind
	for _, c := range r.l.callers {
		for _, o := range c {
			if o.K == pkRetransmit {
				return sig + "/same-subscriber-overlap"
			}
		}
	}
	return sig
}

// call performs one request for subscriber s and folds the answer into s's sequential history.
// concurrentHeld marks calls for the held-back subscriber made during the concurrent phase.
func (r *pkRun) call(k pkKind, s string, concurrentHeld bool) {
	x := r.sub(s)
	switch k {
	case pkAlloc, pkAllocAlt:
		var v string
		var err error
		if k == pkAllocAlt && r.alt != nil {
			v, err = r.alt.AllocAlt(s)
		} else {
			v, err = r.p.Alloc(s)
		}
		x.mu.Lock()
		defer x.mu.Unlock()
		if err != nil {
			if x.holds != "" && !x.injected {
				r.fe.set("reask-failed", "alloc(%s) failed (%v) although it holds %s and none of its writes was refused", s, err, x.holds)
			}
			return
		}
		if e := pools.RangeCheck(r.f.Net, r.f.Unit, v); e != nil {
			r.fe.set("out-of-range", "alloc(%s) -> %s: %v", s, v, e)
		}
		if concurrentHeld {
			r.heldMu.Lock()
			r.heldAllocs = append(r.heldAllocs, v)
			r.heldMu.Unlock()
			return
		}
		if x.holds != "" && x.holds != v {
			r.fe.set("reask-changed", "alloc(%s) while holding %s returned %s", s, x.holds, v)
		}
		x.holds = v
	case pkRelease:
		err := r.p.Release(s)
		x.mu.Lock()
		defer x.mu.Unlock()
		if err != nil {
			if x.holds != "" && !x.injected && !concurrentHeld {
				r.fe.set("release-failed", "release(%s) failed (%v) although it holds %s and none of its writes was refused", s, err, x.holds)
			}
			return
		}
		if concurrentHeld {
			r.heldMu.Lock()
			r.heldReleased = true
			r.heldMu.Unlock()
			return
		}
		x.holds = ""
	case pkRenew:
		if r.renew != nil {
			_ = r.renew.Renew(s) // a renewal never changes who holds what; its outcome is C05's concern
		}
	}
}

// start runs the prelude, arms the gates and launches the held-back call; it returns once that call is waiting
// at its gate or has returned without reaching the store.
func (r *pkRun) start() {
	for _, o := range r.l.prelude {
		r.call(o.K, subs[o.S], false)
	}
	hs := subs[r.l.parked.S]
	switch st := any(r.p).(type) {
	case interface{ Store() *pools.MemStore }:
		r.g1 = st.Store().Park("", hs, 1)
		if r.l.second >= 0 {
			r.g2 = st.Store().Park("", subs[r.l.second], 1)
		}
	case interface {
		AllocStore() *pools.FailingAllocStore
	}:
		r.g1 = st.AllocStore().Park("", hs, 1)
		if r.l.second >= 0 {
			r.g2 = st.AllocStore().Park("", subs[r.l.second], 1)
		}
	default:
		panic("adapter exposes no parkable store")
	}
	if r.l.fail {
		r.sub(hs).injected = true
	}
	if r.l.second >= 0 && r.l.secFail {
		r.sub(subs[r.l.second]).injected = true
	}
	if r.sub(hs).holds != "" {
		r.cls["held-sub:holder"] = true
	} else {
		r.cls["held-sub:new"] = true
	}
	done := make(chan struct{})
	r.held.Add(1)
	go func() {
		defer r.held.Done()
		defer close(done)
		r.call(r.l.parked.K, hs, true)
	}()
	select {
	case <-r.g1.Arrived():
		r.cls["held:reached-store"] = true
	case <-done:
		r.cls["held:returned-before-store"] = true
	}
}

// launch starts the concurrent callers.
func (r *pkRun) launch() {
	hs := subs[r.l.parked.S]
	nc := len(r.l.callers)
	for c, ops := range r.l.callers {
		// caller c owns the subscribers (other than the held-back one) whose index is congruent to c
		var own []string
		for i, s := range subs {
			if i != r.l.parked.S && i%nc == c {
				own = append(own, s)
			}
		}
		r.others.Add(1)
		go func(ops []pkOp, own []string) {
			defer r.others.Done()
			for _, o := range ops {
				if o.K == pkRetransmit || len(own) == 0 {
					k := r.l.parked.K
					if k == pkRenew {
						k = pkAlloc
					}
					r.call(k, hs, true)
					continue
				}
				r.call(o.K, own[o.S%len(own)], false)
			}
		}(ops, own)
		for _, o := range ops {
			if o.K == pkRetransmit {
				r.cls["caller:retransmit"] = true
			} else {
				r.cls["caller:"+pkNames[o.K]] = true
			}
		}
	}
}

func (r *pkRun) openGates() {
	if r.g2 != nil && r.l.secFirst {
		r.g2.Open(r.l.secFail)
	}
	r.g1.Open(r.l.fail)
	if r.g2 != nil {
		r.g2.Open(r.l.secFail)
	}
}

// judge runs after everything was joined: folds the held-back subscriber's concurrent answers into its history,
// then checks the final state and runs the sequential epilogue.
func (r *pkRun) judge() {
	defer r.p.Close()
	r.g1.Disarm()
	if r.g2 != nil {
		r.g2.Disarm()
	}
	if r.fe.kind != "" {
		return
	}
	hs := subs[r.l.parked.S]
	hx := r.sub(hs)
	if r.l.parked.K == pkRelease {
		// only releases were issued for hs: it holds nothing if any of them succeeded
		if r.heldReleased {
			hx.holds = ""
		} else if hx.holds != "" && !hx.injected {
			r.fe.set("release-failed", "every release(%s) failed although it holds %s and none of its writes was refused", hs, hx.holds)
			return
		}
	} else if len(r.heldAllocs) > 0 {
		// only allocations (and renewals) were issued for hs: from its first successful answer on it holds that value
		// (the final-state checks come first, so that one root cause shows under one signature; that the later
		// answers repeat the value is checked after them)
		if hx.holds == "" {
			hx.holds = r.heldAllocs[0]
		}
		if len(r.heldAllocs) > 1 {
			r.cls["held-sub:answered-twice"] = true
		}
	}
	byVal := map[string]string{}
	for _, s := range subs {
		x := r.sub(s)
		got, _ := r.p.Lookup(s)
		if x.holds != "" {
			if got != x.holds {
				r.fe.set("lookup-mismatch", "at the end lookup(%s)=%q, it was handed %q and never gave it up", s, got, x.holds)
				return
			}
			if o, dup := byVal[x.holds]; dup {
				r.fe.set("duplicate", "at the end %s is held by %s and %s", x.holds, o, s)
				return
			}
			byVal[x.holds] = s
			if rs, ok := r.p.Reverse(x.holds); ok && rs != s {
				r.fe.set("reverse-mismatch", "at the end the reverse lookup of %s names %q, it was handed to %s", x.holds, rs, s)
				return
			}
		}
	}
	for _, v := range r.heldAllocs {
		if v != hx.holds {
			r.fe.set("reask-changed", "overlapping requests of %s were answered %s and %s", hs, hx.holds, v)
			return
		}
	}
	seen := map[string]string{}
	for _, s := range subs {
		if got, _ := r.p.Lookup(s); got != "" {
			if o, dup := seen[got]; dup {
				r.fe.set("duplicate-per-lookup", "at the end lookup reports %s for both %s and %s", got, o, s)
				return
			}
			seen[got] = s
		}
	}
	// epilogue: holders ask again, two fresh subscribers allocate
	for _, s := range subs {
		x := r.sub(s)
		if x.holds == "" {
			continue
		}
		v, err := r.p.Alloc(s)
		if err != nil {
			r.fe.set("reask-failed", "afterwards alloc(%s) failed (%v) although it holds %s", s, err, x.holds)
			return
		}
		if v != x.holds {
			r.fe.set("reask-changed", "afterwards alloc(%s) returned %s, it was handed %s and never gave it up", s, v, x.holds)
			return
		}
	}
	for _, s := range []string{"f0", "f1"} {
		v, err := r.p.Alloc(s)
		if err != nil {
			continue // exhausted
		}
		if o, dup := byVal[v]; dup {
			r.fe.set("duplicate", "afterwards alloc(%s) -> %s which %s was handed and never gave up", s, v, o)
			return
		}
		byVal[v] = s
	}
}

func waitOrTimeout(wg *sync.WaitGroup, d time.Duration) bool {
	ch := make(chan struct{})
	go func() { wg.Wait(); close(ch) }()
	t := time.NewTimer(d)
	defer t.Stop()
	select {
	case <-ch:
		return true
	case <-t.C:
		return false
	}
}

// runLanes executes the lanes side by side; returns the first violation (lane, kind, message).
func runLanes(lanes []pkLane, grace time.Duration) (runs []*pkRun) {
	for _, l := range lanes {
		runs = append(runs, newPkRun(l))
	}
	for _, r := range runs {
		r.start()
	}
	var all sync.WaitGroup
	for _, r := range runs {
		r.launch()
		all.Add(1)
		go func(r *pkRun) { defer all.Done(); r.others.Wait() }(r)
	}
	waitOrTimeout(&all, grace) // either outcome is fine: nothing is judged yet
	for _, r := range runs {
		r.openGates()
	}
	for _, r := range runs {
		if !waitOrTimeout(&r.held, parkJoinMax) || !waitOrTimeout(&r.others, parkJoinMax) {
			// a call that never returns after its write was let through cannot be judged for C01
			fmt.Fprintf(os.Stderr, "INCONCLUSIVE: calls did not return within %v after the gates opened: %s\n", parkJoinMax, r.l)
			os.Exit(3)
		}
	}
	for _, r := range runs {
		r.judge()
	}
	return runs
}

func parkedProp(t *testing.T, impl string, lanesPerCase int) {
	rapid.Check(t, func(rt *rapid.T) {
		lanes := rapid.SliceOfN(genLane(impl), lanesPerCase, lanesPerCase).Draw(rt, "lanes")
		runs := runLanes(lanes, parkGrace)
		for _, r := range runs {
			if r.fe.kind != "" {
				if vstat.Fail(rt, r.sig(r.fe.kind), "%s [%s]", r.fe.ms, r.l) {
					continue
				}
			}
		}
		for _, r := range runs {
			cls := []string{"impl:" + impl + "-held-write", "nt:concurrent", "held:" + pkNames[r.l.parked.K]}
			if r.l.fail {
				cls = append(cls, "held-outcome:refused")
			} else {
				cls = append(cls, "held-outcome:applied")
			}
			if r.l.second >= 0 {
				cls = append(cls, "second-gate")
			}
			for _, c := range []string{"held:reached-store", "held:returned-before-store", "held-sub:holder", "held-sub:new",
				"held-sub:answered-twice", "caller:retransmit", "caller:alloc", "caller:allocAlt", "caller:release", "caller:renew"} {
				if r.cls[c] {
					cls = append(cls, c)
				}
			}
			l := r.l
			vstat.Case(true, vstat.Hash("held-write", l.String()), func() any {
				return map[string]any{"impl": impl, "lane": l.String()}
			}, cls...)
		}
	})
}

// TestPropHeldWriteDistSession: DistributedAllocator (session mode) with a store write held back.
func TestPropHeldWriteDistSession(t *testing.T) {
	vstat.Checks(250, 2500)
	parkedProp(t, "dist-session", 8)
}

// TestPropHeldWriteDistLease: DistributedAllocator (lease mode) with a store write held back.
func TestPropHeldWriteDistLease(t *testing.T) {
	vstat.Checks(250, 2500)
	parkedProp(t, "dist-lease", 8)
}

// TestPropHeldWritePoolAlloc: PoolAllocator over an AllocationStore whose write is held back.
func TestPropHeldWritePoolAlloc(t *testing.T) {
	vstat.Checks(250, 2500)
	parkedProp(t, "poolalloc", 8)
}
