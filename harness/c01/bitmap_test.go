package c01

import (
	"context"
	"encoding/binary"
	"encoding/json"
	"fmt"
	"math/big"
	"net"
	"testing"

	"github.com/codelaboratoryltd/bng/pkg/allocator"
	"pgregory.net/rapid"

	"bngverif/internal/vstat"
)

// geometry draws (pool CIDR, unit prefix length) for the bitmap allocators.
type geometry struct {
	cidr  string
	unit  int
	class string
}

func genGeometry(v6ok bool) *rapid.Generator[geometry] {
	return rapid.Custom(func(t *rapid.T) geometry {
		classes := []string{"tiny", "tiny", "v4", "v4unit"}
		if v6ok {
			classes = append(classes, "v6", "v6", "huge")
		}
		switch c := rapid.SampledFrom(classes).Draw(t, "geomClass"); c {
		case "tiny":
			// 1..8 units: exhaustion and wrap paths
			bits := rapid.IntRange(0, 3).Draw(t, "unitBits")
			if v6ok && rapid.Bool().Draw(t, "tinyV6") {
				pl := rapid.SampledFrom([]int{48, 56, 60, 64, 120}).Draw(t, "poolLen")
				b := make(net.IP, 16)
				b[0], b[1], b[2], b[3] = 0x20, 0x01, 0x0d, 0xb8
				b[4] = byte(rapid.IntRange(0, 255).Draw(t, "b4"))
				n := &net.IPNet{IP: b.Mask(net.CIDRMask(pl, 128)), Mask: net.CIDRMask(pl, 128)}
				return geometry{n.String(), pl + bits, "tiny-v6"}
			}
			pl := rapid.IntRange(16, 32-bits).Draw(t, "poolLen")
			b := net.IPv4(10, byte(rapid.IntRange(0, 255).Draw(t, "b1")), byte(rapid.IntRange(0, 255).Draw(t, "b2")), byte(rapid.IntRange(0, 255).Draw(t, "b3"))).To4()
			n := &net.IPNet{IP: b.Mask(net.CIDRMask(pl, 32)), Mask: net.CIDRMask(pl, 32)}
			return geometry{n.String(), pl + bits, "tiny-v4"}
		case "v4":
			pl := rapid.IntRange(16, 30).Draw(t, "poolLen")
			b := net.IPv4(byte(rapid.IntRange(1, 223).Draw(t, "b0")), byte(rapid.IntRange(0, 255).Draw(t, "b1")), byte(rapid.IntRange(0, 255).Draw(t, "b2")), byte(rapid.IntRange(0, 255).Draw(t, "b3"))).To4()
			n := &net.IPNet{IP: b.Mask(net.CIDRMask(pl, 32)), Mask: net.CIDRMask(pl, 32)}
			return geometry{n.String(), 32, "v4/32"}
		case "v4unit":
			pl := rapid.IntRange(16, 28).Draw(t, "poolLen")
			d := rapid.IntRange(1, 32-pl).Draw(t, "delta")
			b := net.IPv4(100, byte(rapid.IntRange(64, 127).Draw(t, "b1")), byte(rapid.IntRange(0, 255).Draw(t, "b2")), 0).To4()
			n := &net.IPNet{IP: b.Mask(net.CIDRMask(pl, 32)), Mask: net.CIDRMask(pl, 32)}
			return geometry{n.String(), pl + d, "v4/sub"}
		case "v6":
			pair := rapid.SampledFrom([][2]int{{48, 56}, {48, 60}, {48, 64}, {56, 64}, {64, 72}, {32, 48}, {112, 128}}).Draw(t, "pair")
			b := make(net.IP, 16)
			b[0], b[1] = 0x20, 0x01
			for i := 2; i < 16; i++ {
				b[i] = byte(rapid.IntRange(0, 255).Draw(t, "b"))
			}
			n := &net.IPNet{IP: b.Mask(net.CIDRMask(pair[0], 128)), Mask: net.CIDRMask(pair[0], 128)}
			return geometry{n.String(), pair[1], fmt.Sprintf("v6/%d->%d", pair[0], pair[1])}
		default: // huge: >= 2^64 units
			pair := rapid.SampledFrom([][2]int{{48, 128}, {32, 96}, {64, 128}, {0, 64}}).Draw(t, "pair")
			b := net.ParseIP("2001:db8::")
			n := &net.IPNet{IP: b.Mask(net.CIDRMask(pair[0], 128)), Mask: net.CIDRMask(pair[0], 128)}
			return geometry{n.String(), pair[1], "huge"}
		}
	})
}

func cidrOf(n *net.IPNet) string {
	if n == nil {
		return ""
	}
	return n.String()
}

// TestPropBitmap: allocator.IPAllocator under alloc/allocSpecific/release/releasePrefix/reload histories.
func TestPropBitmap(t *testing.T) {
	vstat.Checks(3000, 60000)
	rapid.Check(t, func(rt *rapid.T) {
		g := genGeometry(true).Draw(rt, "geometry")
		a, err := allocator.NewIPAllocator(g.cidr, g.unit)
		if err != nil {
			rt.Fatalf("generator produced a geometry the constructor rejects: %v (%+v)", err, g)
		}
		_, pool, _ := net.ParseCIDR(g.cidr)
		inRange := func(v string) error { return rangeCheck(pool, g.unit, v) }
		m := newModel("bitmap")
		m.logf("new(%s,/%d)", g.cidr, g.unit)
		lookup := func(s string) string { return cidrOf(a.Lookup(s)) }
		sub := rapid.SampledFrom(subs)
		given := []string{} // values ever handed out (for allocSpecific / releasePrefix targets)
		pickVal := func(rt *rapid.T) (*net.IPNet, string) {
			if len(given) > 0 && rapid.IntRange(0, 3).Draw(rt, "useGiven") > 0 {
				v := rapid.SampledFrom(given).Draw(rt, "val")
				_, n, _ := net.ParseCIDR(v)
				return n, v
			}
			// small index in the pool (or just beyond it for tiny pools)
			idx := rapid.IntRange(0, 9).Draw(rt, "idx")
			_, bits := pool.Mask.Size()
			off := new(big.Int).Lsh(big.NewInt(int64(idx)), uint(bits-g.unit))
			base := new(big.Int).SetBytes(pool.IP)
			raw := base.Add(base, off).Bytes()
			ip := make(net.IP, bits/8)
			if len(raw) > len(ip) {
				raw = raw[len(raw)-len(ip):]
			}
			copy(ip[len(ip)-len(raw):], raw)
			n := &net.IPNet{IP: ip.Mask(net.CIDRMask(g.unit, bits)), Mask: net.CIDRMask(g.unit, bits)}
			return n, n.String()
		}
		rt.Repeat(map[string]func(*rapid.T){
			"alloc": func(rt *rapid.T) {
				s := sub.Draw(rt, "sub")
				p, err := a.Allocate(s)
				m.logf("alloc(%s)=%s,%s", s, cidrOf(p), okerr(err))
				if err != nil {
					if _, holds := m.has[s]; holds {
						m.fail(rt, "reask-failed", "alloc(%s) failed (%v) although it holds %s", s, err, m.has[s])
					}
					return
				}
				v := cidrOf(p)
				given = append(given, v)
				m.onAlloc(rt, s, v, inRange, lookup)
			},
			"allocSpecific": func(rt *rapid.T) {
				s := sub.Draw(rt, "sub")
				n, v := pickVal(rt)
				err := a.AllocateSpecific(s, n)
				m.logf("allocSpecific(%s,%s)=%s", s, v, okerr(err))
				if err == nil {
					given = append(given, v)
					m.onAlloc(rt, s, v, inRange, lookup)
				}
			},
			"release": func(rt *rapid.T) {
				s := sub.Draw(rt, "sub")
				err := a.Release(s)
				m.logf("release(%s)=%s", s, okerr(err))
				if err == nil {
					m.onFree(s)
				}
			},
			"releasePrefix": func(rt *rapid.T) {
				n, v := pickVal(rt)
				err := a.ReleasePrefix(n)
				m.logf("releasePrefix(%s)=%s", v, okerr(err))
				if err == nil {
					m.onFreeValue(v)
				}
			},
			"setAllocation": func(rt *rapid.T) {
				// replay of a record from the authoritative store ("forcibly sets an allocation")
				s := sub.Draw(rt, "sub")
				n, v := pickVal(rt)
				err := a.SetAllocation(s, n)
				m.logf("setAllocation(%s,%s)=%s", s, v, okerr(err))
				if err == nil {
					given = append(given, v)
					if m.has[s] != v {
						m.onFree(s) // the record moved s to v
					}
					m.onAlloc(rt, s, v, inRange, lookup)
				}
			},
			"reload": func(rt *rapid.T) {
				b, err := json.Marshal(a)
				if err != nil {
					rt.Fatalf("marshal: %v", err)
				}
				na := &allocator.IPAllocator{}
				if err := json.Unmarshal(b, na); err != nil {
					m.logf("reload=err")
					return // restore equivalence is C12's concern; keep the old instance
				}
				a = na
				m.logf("reload")
			},
			"": func(rt *rapid.T) {
				if m.dead {
					rt.Skip("known finding fired")
				}
				m.crossCheck(rt, lookup, func(v string) (string, bool) {
					_, n, _ := net.ParseCIDR(v)
					return a.LookupByPrefix(n), true
				})
				if m.dead {
					return
				}
				seen := map[string]string{}
				for _, al := range a.ListAllocations() {
					v := cidrOf(al.Prefix)
					if o, dup := seen[v]; dup {
						m.fail(rt, "duplicate-in-list", "ListAllocations has %s for %s and %s", v, o, al.SubscriberID)
						return
					}
					seen[v] = al.SubscriberID
				}
			},
		})
		m.record("geom:" + g.class)
	})
}

// TestPropEpoch: allocator.EpochBitmapAllocator; expiry follows the documented rule
// "a lease not renewed for more than GracePeriod epochs is reclaimed".
func TestPropEpoch(t *testing.T) {
	vstat.Checks(3000, 60000)
	ctx := context.Background()
	rapid.Check(t, func(rt *rapid.T) {
		bits := rapid.SampledFrom([]int{2, 2, 3, 3, 4, 6, 8}).Draw(rt, "hostBits")
		pl := 32 - bits
		b := net.IPv4(10, byte(rapid.IntRange(0, 255).Draw(rt, "b1")), byte(rapid.IntRange(0, 255).Draw(rt, "b2")), byte(rapid.IntRange(0, 255).Draw(rt, "b3"))).To4()
		pool := &net.IPNet{IP: b.Mask(net.CIDRMask(pl, 32)), Mask: net.CIDRMask(pl, 32)}
		grace := uint64(rapid.SampledFrom([]int{0, 1, 1, 2}).Draw(rt, "grace"))
		a, err := allocator.NewEpochBitmapAllocator(allocator.EpochBitmapConfig{BaseNetwork: pool.String(), PrefixLength: 32, GracePeriod: grace})
		if err != nil {
			rt.Fatalf("constructor: %v", err)
		}
		effGrace := grace
		if effGrace == 0 {
			effGrace = 1 // documented default
		}
		inRange := func(v string) error { return rangeCheck(pool, -1, v) }
		m := newModel("epoch")
		m.logf("new(%s,grace=%d)", pool, grace)
		touched := map[string]uint64{} // subscriber -> epoch of last allocate/renew
		lookup := func(s string) string {
			if ip := a.Lookup(s); ip != nil {
				return ip.String()
			}
			return ""
		}
		sub := rapid.SampledFrom(subs)
		advances, sets, moved := 0, 0, 0
		rt.Repeat(map[string]func(*rapid.T){
			"alloc": func(rt *rapid.T) {
				s := sub.Draw(rt, "sub")
				ip, err := a.Allocate(ctx, s)
				m.logf("alloc(%s)=%v,%s", s, ip, okerr(err))
				if err != nil {
					if _, holds := m.has[s]; holds {
						m.fail(rt, "reask-failed", "alloc(%s) failed (%v) although it holds %s", s, err, m.has[s])
					}
					return
				}
				m.onAlloc(rt, s, ip.String(), inRange, lookup)
				touched[s] = a.GetCurrentEpoch()
			},
			"renew": func(rt *rapid.T) {
				s := sub.Draw(rt, "sub")
				err := a.Renew(ctx, s)
				m.logf("renew(%s)=%s", s, okerr(err))
				if err == nil {
					if _, ok := m.has[s]; ok {
						touched[s] = a.GetCurrentEpoch()
					}
				}
			},
			"release": func(rt *rapid.T) {
				s := sub.Draw(rt, "sub")
				_ = a.Release(ctx, s)
				m.logf("release(%s)", s)
				m.onFree(s)
				delete(touched, s)
			},
			"setAllocation": func(rt *rapid.T) {
				// replay of a record from the shared store / a change announced by another node: the address is
				// already decided ("records that subscriberID holds ip"); callers are loadAllocations and
				// handleRemoteChange, so the address is whatever a record says - any index, also outside the pool
				s := sub.Draw(rt, "sub")
				idx := rapid.IntRange(0, min(9, (1<<uint(bits))+1)).Draw(rt, "idx")
				ipInt := binary.BigEndian.Uint32(pool.IP.To4()) + uint32(idx)
				ip := make(net.IP, 4)
				binary.BigEndian.PutUint32(ip, ipInt)
				if o, held := m.holder[ip.String()]; held && o != s && rapid.IntRange(0, 3).Draw(rt, "keepConflict") != 0 {
					s = o // most records for a held address are that holder's own record (re-applied)
				}
				err := a.SetAllocation(s, ip)
				m.logf("setAllocation(%s,%s)=%s", s, ip, okerr(err))
				sets++
				if err != nil {
					return // refused: held by another subscriber on a live lease, or not an allocatable address
				}
				v := ip.String()
				if m.has[s] != v {
					m.onFree(s) // "Give back a different address the subscriber held before"
					moved++
				}
				m.onAlloc(rt, s, v, inRange, lookup)
				touched[s] = a.GetCurrentEpoch() // recorded "at the current epoch"
			},
			"advanceEpoch": func(rt *rapid.T) {
				e := a.AdvanceEpoch()
				advances++
				m.logf("advance->%d", e)
				for s, at := range touched {
					if e-at > effGrace {
						m.onFree(s) // expired without renewal
						delete(touched, s)
					}
				}
			},
			"": func(rt *rapid.T) {
				if m.dead {
					rt.Skip("known finding fired")
				}
				m.crossCheck(rt, lookup, func(v string) (string, bool) { return a.LookupByIP(net.ParseIP(v)), true })
			},
		})
		cls := []string{fmt.Sprintf("grace:%d", grace)}
		if advances >= 3 {
			cls = append(cls, "advances>=3")
		}
		if sets > 0 {
			cls = append(cls, "has:setAllocation")
		}
		if moved > 0 {
			cls = append(cls, "has:setAllocation-moved")
		}
		m.record(cls...)
	})
}
