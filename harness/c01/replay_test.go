package c01

// Minimal reproductions of the listed known findings of C01. Each asserts through the same signature as
// the generated search: silent while the finding is listed (or fixed), failing if it reappears unlisted.

import (
	"fmt"
	"net"
	"testing"
	"testing/synctest"
	"time"

	"bngverif/internal/vstat"

	"bngverif/internal/pools"
)

func op(k pools.Kind, s, v int) pools.Op { return pools.Op{K: k, S: s, V: v, P: 1} }

// KF-C01-1/2: pppoe.IPPool.Allocate is not idempotent per session id.
func TestReplayPPPoEReask(t *testing.T) {
	f := pools.PPPoEFactory("10.0.0.0/29", "10.0.0.1", "replay")
	runHistory(t, f, []pools.Op{op(pools.OpAlloc, 0, 0), op(pools.OpAlloc, 0, 0)}, runOpt{})
	f = pools.PPPoEFactory("10.0.0.0/30", "10.0.0.1", "replay")
	runHistory(t, f, []pools.Op{op(pools.OpAlloc, 0, 0), op(pools.OpAlloc, 1, 0), op(pools.OpAlloc, 0, 0)}, runOpt{})
}

// KF-C01-3: IPCPStateMachine.Down releases the pool entry but keeps PeerIP; after Down/Up of A and Up of B both hold one address.
func TestReplayIPCPDownUp(t *testing.T) {
	// free list is FIFO: in a /30 (two addresses) A's released address is the next one handed out after B took the other
	ipcpRun(t, "10.0.0.0/30", "10.0.0.1", []pools.Op{
		op(pools.OpAlloc, 0, 0), op(pools.OpAlloc, 1, 0), op(pools.OpRelease, 0, 0), op(pools.OpAlloc, 0, 0), op(pools.OpAlloc, 2, 0)})
}

// KF-C01-4: nexus.Client.allocateFromPool = FNV-1a(id) mod hosts without collision handling.
func TestReplayNexusCollision(t *testing.T) {
	_, ipn, _ := net.ParseCIDR("10.0.0.0/30") // 2 hosts, 3 subscribers: a collision is certain
	ids := map[string]string{}
	for i, s := range subs {
		ids[s] = fmt.Sprintf("sub-%06d", i)
	}
	msg := inBubble(t, func(ft fataler) {
		f := nexusFactory(ipn, ids)
		runHistory(ft, f, []pools.Op{op(pools.OpAlloc, 0, 0), op(pools.OpAlloc, 1, 0), op(pools.OpAlloc, 2, 0)}, runOpt{})
	})
	if msg != "" {
		t.Fatalf("%s", msg)
	}
}

// KF-C01-5: lease-mode DistributedAllocator.loadAllocations ignores the stored prefix (re-allocates next-free).
func TestReplayDistLeaseReload(t *testing.T) {
	msg := inBubble(t, func(ft fataler) {
		f := pools.DistFactory("10.0.0.0/29", 32, true, 1, false, "replay", synctest.Wait)
		runHistory(ft, f, []pools.Op{op(pools.OpAlloc, 0, 0), op(pools.OpAlloc, 1, 0), op(pools.OpRelease, 0, 0), op(pools.OpReload, 0, 0)}, runOpt{})
	})
	if msg != "" {
		t.Fatalf("%s", msg)
	}
}

// KF-C01-7: the store record of a lapsed lease lingers (store clean-up lags the local reclaim by an epoch), the address is
// re-assigned, and on restart the lapsed holder's record wins the conflict.
func TestReplayDistLeaseStaleRecord(t *testing.T) {
	msg := inBubble(t, func(ft fataler) {
		f := pools.DistFactory("10.0.0.0/30", 32, true, 0, false, "replay", synctest.Wait)
		runHistory(ft, f, []pools.Op{op(pools.OpAlloc, 0, 0), op(pools.OpAdvance, 0, 0), op(pools.OpAdvance, 0, 0), op(pools.OpAlloc, 1, 0), op(pools.OpReload, 0, 0)}, runOpt{})
	})
	if msg != "" {
		t.Fatalf("%s", msg)
	}
}

// KF-C01-6: lease-mode handleRemoteChange ignores the prefix a peer recorded.
func TestReplayDistLeaseRemote(t *testing.T) {
	msg := inBubble(t, func(ft fataler) {
		f := pools.DistFactory("10.0.0.0/29", 32, true, 1, false, "replay", synctest.Wait)
		runHistory(ft, f, []pools.Op{op(pools.OpRemoteSet, 0, 2)}, runOpt{})
	})
	if msg != "" {
		t.Fatalf("%s", msg)
	}
}

// KF-C01-8: PoolAllocator.AllocateWithOptions reads "existed", reserves, persists and rolls back without a lock of its
// own. Two overlapping requests of one new subscriber; the first one's store write is held back and finally refused:
// its rollback frees the address the second request has meanwhile returned to the subscriber.
// (On a tree that serialises the two requests the second one waits; the long grace only bounds that wait.)
func TestReplayPoolAllocOverlap(t *testing.T) {
	lane := pkLane{impl: "poolalloc", cidr: "10.0.0.0/29", unit: 32, class: "replay", parked: pkOp{pkAlloc, 0}, fail: true, second: -1,
		callers: [][]pkOp{{{pkRetransmit, 0}}}}
	for _, r := range runLanes([]pkLane{lane}, 2*time.Second) {
		if r.fe.kind != "" {
			vstat.Fail(t, r.sig(r.fe.kind), "%s [%s]", r.fe.ms, r.l)
		}
	}
}
