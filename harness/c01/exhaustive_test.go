package c01

// Bounded-exhaustive part of C01's quantifier: ALL sequences of <= depth operations over 3 subscribers on
// pools of <= 8 units, for the in-memory allocators. Only the sequences of exactly `depth` ops are
// enumerated: the oracle runs after every step, so every shorter sequence is checked as a prefix.
// depth is 7 in the thorough tier (the bound the property names) and 4 in the quick tier.

import (
	"fmt"
	"testing"

	"bngverif/internal/pools"
	"bngverif/internal/vstat"
)

type exhSpace struct {
	f     pools.Factory
	alpha []pools.Op
}

func alphabet(kinds ...pools.Kind) []pools.Op {
	var a []pools.Op
	for _, k := range kinds {
		if k == pools.OpAdvance || k == pools.OpReload {
			a = append(a, pools.Op{K: k, P: 0x9e3779b97f4a7c15})
			continue
		}
		for s := 0; s < 3; s++ {
			a = append(a, pools.Op{K: k, S: s})
		}
	}
	return a
}

func exhSpaces() []exhSpace {
	var sp []exhSpace
	ar := alphabet(pools.OpAlloc, pools.OpRelease)
	for _, c := range []string{"10.9.8.7/32", "10.9.8.6/31", "10.9.8.4/30", "10.9.8.0/29"} {
		sp = append(sp, exhSpace{pools.BitmapFactory(c, 32, "exh"), alphabet(pools.OpAlloc, pools.OpRelease, pools.OpReload)})
	}
	sp = append(sp, exhSpace{pools.BitmapFactory("2001:db8:0:10::/60", 62, "exh"), alphabet(pools.OpAlloc, pools.OpRelease, pools.OpReload)})
	for _, c := range []string{"10.9.8.4/30", "10.9.8.0/29"} {
		sp = append(sp, exhSpace{pools.EpochFactory(c, 1, "exh"), alphabet(pools.OpAlloc, pools.OpRenew, pools.OpRelease, pools.OpAdvance)})
		sp = append(sp, exhSpace{pools.DHCP4Factory(c, "10.9.8.1", 0, 0, "exh"), ar})
		sp = append(sp, exhSpace{pools.PeerFactory(c, "10.9.8.1", "exh"), ar})
		sp = append(sp, exhSpace{pools.PPPoEFactory(c, "10.9.8.1", "exh"), ar})
		sp = append(sp, exhSpace{pools.LocalFactory(c, 32, "exh"), ar})
	}
	if pools.EpochConfigOK("10.9.8.4/30", 2) {
		sp = append(sp, exhSpace{pools.EpochFactory("10.9.8.4/30", 2, "exh"), alphabet(pools.OpAlloc, pools.OpRenew, pools.OpRelease, pools.OpAdvance)})
	}
	for _, c := range []string{"2001:db8::4/126", "2001:db8::8/125"} {
		sp = append(sp, exhSpace{pools.V6AddrFactory(c, "exh"), alphabet(pools.OpAlloc, pools.OpRelease, pools.OpDecline)})
	}
	sp = append(sp, exhSpace{pools.V6PrefixFactory("2001:db8:0:4::/62", 64, "exh"), ar})
	sp = append(sp, exhSpace{pools.V6PrefixFactory("2001:db8:0:8::/61", 64, "exh"), ar})
	return sp
}

func TestPropExhaustive(t *testing.T) {
	depth := 4
	if vstat.Thorough() {
		depth = 7
	}
	shard, nShards := vstat.Shard()
	total := int64(0)
	for _, sp := range exhSpaces() {
		n := int64(1)
		for i := 0; i < depth; i++ {
			n *= int64(len(sp.alpha))
		}
		ops := make([]pools.Op, depth)
		for idx := int64(shard); idx < n; idx += int64(nShards) {
			x := idx
			for i := depth - 1; i >= 0; i-- {
				ops[i] = sp.alpha[x%int64(len(sp.alpha))]
				x /= int64(len(sp.alpha))
			}
			m, cls := runHistory(t, sp.f, ops, runOpt{})
			m.record(append(cls, "exhaustive")...)
			total++
		}
	}
	vstat.Exhaustive(true)
	vstat.Note("exhaustive_bounds", fmt.Sprintf("all op sequences of length <= %d over 3 subscribers, %d pool configurations of <= 8 units", depth, len(exhSpaces())))
	vstat.Note(fmt.Sprintf("exhaustive_sequences_shard_%d_of_%d", shard, nShards), total)
}
