package c01

// Concurrent phases of C01, for the pool types that are documented thread-safe or carry a mutex AND have
// concurrent callers in the gateway: allocator.IPAllocator ("Thread-safe for concurrent use"),
// allocator.DistributedAllocator (own mutex; watch callbacks and the epoch loop run beside callers),
// dhcp.Pool (server4 runs one goroutine per packet), pool.PeerPool (DHCP handlers + peer HTTP handlers).
// pppoe.IPPool, the dhcpv6 pools and PoolAllocator are not part of THIS stress test (their in-tree callers are
// single loops). The schedules the harness owns - a store write held back while other calls run - are in
// parked_test.go (DistributedAllocator session+lease, PoolAllocator; for the latter see KF-C01-8).
//
// Real goroutines, real parallelism: this is stress, not schedule enumeration.

import (
	"fmt"
	"strings"
	"sync"
	"testing"
	"testing/synctest"

	"pgregory.net/rapid"

	"bngverif/internal/pools"
	"bngverif/internal/vstat"
)

type concPlan struct {
	// phase (a): per goroutine, the subscribers it allocates for (overlapping multiset)
	a [][]int
	// phase (b): per goroutine, an alloc(true)/release(false) list over its OWN subscribers
	b [][]struct {
		alloc bool
		sub   int
	}
}

type firstErr struct {
	mu       sync.Mutex
	kind, ms string
}

func (f *firstErr) set(kind, format string, a ...any) {
	f.mu.Lock()
	if f.kind == "" {
		f.kind, f.ms = kind, fmt.Sprintf(format, a...)
	}
	f.mu.Unlock()
}

// runConcurrent executes both phases once on a fresh instance; returns (kind, message) of the first violation.
func runConcurrent(f pools.Factory, plan concPlan) (string, string) {
	var fe firstErr
	inRange := func(v string) error { return pools.RangeCheck(f.Net, f.Unit, v) }

	// ---- phase (a): everybody allocates, overlapping subscribers
	p := f.New(0)
	var wg sync.WaitGroup
	results := make([]map[int]string, len(plan.a))
	start := make(chan struct{})
	for g := range plan.a {
		results[g] = map[int]string{}
		wg.Add(1)
		go func(g int) {
			defer wg.Done()
			<-start
			for _, s := range plan.a[g] {
				v, err := p.Alloc(fmt.Sprintf("s%d", s))
				if err != nil {
					continue // exhaustion under contention is legitimate
				}
				if e := inRange(v); e != nil {
					fe.set("out-of-range", "concurrent alloc(s%d) -> %s: %v", s, v, e)
				}
				if prev, ok := results[g][s]; ok && prev != v {
					fe.set("reask-changed", "goroutine %d: alloc(s%d) returned %s then %s", g, s, prev, v)
				}
				results[g][s] = v
			}
		}(g)
	}
	close(start)
	wg.Wait()
	bySub := map[int]string{}
	for g := range results {
		for s, v := range results[g] {
			if prev, ok := bySub[s]; ok && prev != v {
				fe.set("reask-changed", "concurrent callers got %s and %s for s%d", prev, v, s)
			}
			bySub[s] = v
		}
	}
	byVal := map[string]int{}
	for s, v := range bySub {
		if o, dup := byVal[v]; dup {
			fe.set("duplicate", "concurrent allocation handed %s to s%d and s%d", v, o, s)
		}
		byVal[v] = s
		if got, ok := p.Lookup(fmt.Sprintf("s%d", s)); ok && got != v {
			fe.set("lookup-mismatch", "after concurrent phase lookup(s%d)=%q, it was handed %q", s, got, v)
		}
	}
	p.Close()
	if fe.kind != "" {
		return fe.kind, fe.ms
	}

	// ---- phase (b): disjoint owners, own alloc/release lists; a claims table detects a value live under two subscribers
	p = f.New(0)
	defer p.Close()
	var cmu sync.Mutex
	claims := map[string]string{}
	final := make([]map[string]string, len(plan.b))
	start = make(chan struct{})
	for g := range plan.b {
		final[g] = map[string]string{}
		wg.Add(1)
		go func(g int) {
			defer wg.Done()
			<-start
			for _, st := range plan.b[g] {
				s := fmt.Sprintf("g%d", g*100+st.sub)
				if st.alloc {
					v, err := p.Alloc(s)
					if err != nil {
						if held, ok := final[g][s]; ok {
							fe.set("reask-failed", "alloc(%s) failed (%v) although it holds %s", s, err, held)
						}
						continue
					}
					if e := inRange(v); e != nil {
						fe.set("out-of-range", "concurrent alloc(%s) -> %s: %v", s, v, e)
					}
					if held, ok := final[g][s]; ok && held != v {
						fe.set("reask-changed", "alloc(%s) while holding %s returned %s", s, held, v)
					}
					cmu.Lock()
					if o, ok := claims[v]; ok && o != s {
						fe.set("duplicate", "alloc(%s) -> %s while %s holds it (concurrent owners)", s, v, o)
					}
					claims[v] = s
					cmu.Unlock()
					final[g][s] = v
				} else {
					held, ok := final[g][s]
					if !ok {
						continue
					}
					// give up the claim BEFORE the pool can hand the value to anybody else
					cmu.Lock()
					delete(claims, held)
					cmu.Unlock()
					delete(final[g], s)
					if err := p.Release(s); err != nil {
						fe.set("release-failed", "release(%s) failed (%v) although it holds %s", s, err, held)
					}
				}
			}
		}(g)
	}
	close(start)
	wg.Wait()
	seen := map[string]string{}
	for g := range final {
		for s, v := range final[g] {
			if o, dup := seen[v]; dup {
				fe.set("duplicate", "final table: %s held by %s and %s", v, o, s)
			}
			seen[v] = s
			if got, ok := p.Lookup(s); ok && got != v {
				fe.set("lookup-mismatch", "final table: lookup(%s)=%q, sequential model of its owner says %q", s, got, v)
			}
		}
	}
	return fe.kind, fe.ms
}

func genPlan() *rapid.Generator[concPlan] {
	return rapid.Custom(func(t *rapid.T) concPlan {
		n := rapid.IntRange(2, 8).Draw(t, "goroutines")
		var pl concPlan
		for g := 0; g < n; g++ {
			pl.a = append(pl.a, rapid.SliceOfN(rapid.IntRange(0, 9), 1, 12).Draw(t, "a"))
			k := rapid.IntRange(1, 24).Draw(t, "bLen")
			var l []struct {
				alloc bool
				sub   int
			}
			for i := 0; i < k; i++ {
				l = append(l, struct {
					alloc bool
					sub   int
				}{rapid.IntRange(0, 2).Draw(t, "isAlloc") > 0, rapid.IntRange(0, 3).Draw(t, "ownSub")})
			}
			pl.b = append(pl.b, l)
		}
		return pl
	})
}

func TestPropConcurrent(t *testing.T) {
	vstat.Checks(400, 4000)
	reps := vstat.Scale(5, 20)
	rapid.Check(t, func(rt *rapid.T) {
		impl := rapid.SampledFrom([]string{"bitmap", "dist-session", "dist-lease", "dhcp4", "peer"}).Draw(rt, "impl")
		var f pools.Factory
		bubble := false
		switch impl {
		case "bitmap":
			g := pools.GenGeom(true, false).Draw(rt, "geometry")
			f = pools.BitmapFactory(g.CIDR, g.Unit, g.Class)
		case "dist-session":
			g := pools.GenGeom(true, false).Draw(rt, "geometry")
			f = pools.DistFactory(g.CIDR, g.Unit, false, 0, false, g.Class, nil)
		case "dist-lease":
			f = pools.DistFactory(pools.GenEpochNet(false).Draw(rt, "net"), 32, true, 1, false, "lease", synctest.Wait)
			bubble = true
		case "dhcp4":
			n := pools.GenV4Net().Draw(rt, "net")
			f = pools.DHCP4Factory(n.CIDR, n.Gateway, 0, 0, n.Class)
		default:
			n := pools.GenV4Net().Draw(rt, "net")
			f = pools.PeerFactory(n.CIDR, n.Gateway, n.Class)
		}
		plan := genPlan().Draw(rt, "plan")
		kind, msg := "", ""
		body := func() {
			for r := 0; r < reps && kind == ""; r++ {
				kind, msg = runConcurrent(f, plan)
			}
		}
		if bubble {
			synctest.Test(t, func(*testing.T) { body() })
		} else {
			body()
		}
		if kind != "" {
			if vstat.Fail(rt, "C01/"+f.Impl+"/concurrent/"+kind, "%s [%s]", msg, f.Desc) {
				return
			}
		}
		var sb strings.Builder
		fmt.Fprint(&sb, f.Desc, plan.a, plan.b)
		vstat.Case(true, vstat.Hash("conc", sb.String()), func() any {
			return map[string]any{"impl": f.Impl, "pool": f.Desc, "goroutines": len(plan.a), "phaseA": plan.a, "phaseB": fmt.Sprint(plan.b)}
		}, "impl:"+f.Impl+"-concurrent", "nt:concurrent", fmt.Sprintf("goroutines:%d", len(plan.a)))
	})
}
