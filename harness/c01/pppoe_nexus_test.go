package c01

import (
	"context"
	"fmt"
	"net"
	"strings"
	"testing"
	"testing/synctest"

	"github.com/codelaboratoryltd/bng/pkg/nexus"
	"github.com/codelaboratoryltd/bng/pkg/pppoe"
	"go.uber.org/zap"
	"pgregory.net/rapid"

	"bngverif/internal/pools"
	"bngverif/internal/vstat"
)

// ---------------------------------------------------------------- IPCP state machines sharing one pppoe.IPPool

// ipcpRun drives k IPCPStateMachine instances (one per PPPoE session) that share one pool through
// lower-layer Up/Down events. The address a session holds is what its machine negotiates for the peer.
func ipcpRun(ft fataler, cidr, gw string, ops []pools.Op) (*model, []string) {
	pool, err := pppoe.NewIPPool(cidr, gw)
	if err != nil {
		ft.Fatalf("constructor: %v", err)
	}
	_, ipn, _ := net.ParseCIDR(cidr)
	inRange := func(v string) error { return pools.RangeCheck(ipn, -1, v) }
	m := newModel("pppoe-ipcp")
	m.logf("new IPPool(%s,gw=%s) shared by 3 IPCP machines", cidr, gw)
	const k = 3
	var sm [k]*pppoe.IPCPStateMachine
	up := [k]bool{}
	for i := range sm {
		cfg := pppoe.DefaultIPCPConfig()
		cfg.IPPool = pool
		sm[i] = pppoe.NewIPCPStateMachine(cfg, subs[i], func(uint16, []byte) {}, zap.NewNop())
	}
	reup := false
	for _, op := range ops {
		if m.dead {
			break
		}
		i := op.S % k
		s := subs[i]
		switch op.K {
		case pools.OpAlloc: // lower layer Up
			if up[i] {
				continue // RFC 1661: Up is only delivered while the lower layer is down
			}
			sm[i].Up()
			up[i] = true
			ip := sm[i].GetNegotiatedOptions().PeerIP
			m.logf("up(%s)=%v", s, ip)
			if ip == nil {
				continue // pool exhausted: the session has no address
			}
			if _, was := m.freed[ip.String()]; was {
				reup = true
			}
			m.onAlloc(ft, s, ip.String(), inRange, nil)
		case pools.OpRelease: // lower layer Down: the session's address goes back to the pool
			if !up[i] {
				continue
			}
			sm[i].Down()
			up[i] = false
			m.logf("down(%s)", s)
			m.onFree(s)
		}
	}
	cls := []string{"geom:ipcp"}
	if reup {
		cls = append(cls, "has:up-after-down")
	}
	return m, cls
}

func TestPropPPPoEIPCP(t *testing.T) {
	vstat.Checks(2500, 50000)
	rapid.Check(t, func(rt *rapid.T) {
		n := pools.GenV4Net().Draw(rt, "net")
		ops := pools.GenOps(baseKinds, []int{3, 2}, 3, 1, 30).Draw(rt, "ops")
		m, cls := ipcpRun(rt, n.CIDR, n.Gateway, ops)
		m.record(cls...)
	})
}

// ---------------------------------------------------------------- nexus.Client hash-based central allocation

// nexusHash is FNV-1a 64 as documented for the "deterministic hash" allocation (written from the documentation, not
// copied from pkg/nexus). It labels and steers cases (collision-free id sets vs colliding ones) and CLASSIFIES a
// duplicate the oracle has found: KF-C01-4 records exactly "two ids whose FNV-1a hash mod usable hosts is equal are
// handed one address". Only that shape may report under the listed signature C01/nexus/duplicate; a duplicate between
// two ids whose reference slots differ has another cause and reports as C01/nexus/duplicate/ids-hash-to-different-slots
// (never listed). It never decides WHETHER something is a violation.
func nexusHash(s string) uint64 {
	var h uint64 = 14695981039346656037
	for i := 0; i < len(s); i++ {
		h ^= uint64(s[i])
		h *= 1099511628211
	}
	return h
}

type nexusPool struct {
	store  *nexus.MemoryStore
	c      *nexus.Client
	ids    map[string]string // model subscriber -> generated subscriber id
	poolID string
	hosts  uint64
	ft     fataler           // nil in plain replays: an unlisted classification then panics with the VIOLATION text
	held   map[string]string // model subscriber -> value handed out and not given up (adapter's own ledger, from return values only)
	log    []string
}

// classifyDuplicate runs before the model sees the value: a value handed to sub while another subscriber still holds
// it is the recorded hash collision only if the independent reference puts both ids into one slot.
func (n *nexusPool) classifyDuplicate(sub, ip string) {
	for _, o := range subs {
		if o == sub || n.held[o] != ip {
			continue
		}
		a, b := nexusHash(n.ids[o])%n.hosts, nexusHash(n.ids[sub])%n.hosts
		if a == b {
			return // the listed shape: the model reports it as C01/nexus/duplicate
		}
		const sig = "C01/nexus/duplicate/ids-hash-to-different-slots"
		msg := fmt.Sprintf("alloc(%s=%q) -> %s which is held by %s=%q, although the ids hash to different slots (%d and %d of %d): not the recorded hash collision\nhistory: %s",
			sub, n.ids[sub], ip, o, n.ids[o], b, a, n.hosts, strings.Join(n.log, "; "))
		if n.ft == nil {
			if !vstat.Known(sig) {
				panic("VIOLATION sig=" + sig + ": " + msg)
			}
			return
		}
		vstat.Fail(n.ft, sig, "%s", msg)
		return
	}
}

func (n *nexusPool) start() {
	n.c = nexus.NewClient(nexus.ClientConfig{DeviceID: "olt-1", HeartbeatInterval: nexus.DefaultClientConfig().HeartbeatInterval}, n.store, zap.NewNop())
	if err := n.c.Start(); err != nil {
		panic(err)
	}
	synctest.Wait()
}
func (n *nexusPool) Alloc(sub string) (string, error) {
	ip, err := n.c.AllocateIPForSubscriber(context.Background(), n.ids[sub])
	synctest.Wait() // let the store's watch callbacks update the client's cache
	n.log = append(n.log, fmt.Sprintf("alloc(%s)=%s,%s", sub, ip, okerr(err)))
	if err == nil && ip != "" {
		n.classifyDuplicate(sub, ip)
		n.held[sub] = ip
	}
	return ip, err
}
func (n *nexusPool) Release(sub string) error {
	err := n.c.ReleaseSubscriberIP(context.Background(), n.ids[sub])
	synctest.Wait()
	n.log = append(n.log, fmt.Sprintf("release(%s)=%s", sub, okerr(err)))
	if err == nil {
		delete(n.held, sub)
	}
	return err
}
func (n *nexusPool) Lookup(sub string) (string, bool) {
	ip, _ := n.c.LookupSubscriberIP(n.ids[sub])
	return ip, true
}
func (n *nexusPool) Reverse(string) (string, bool) { return "", false }
func (n *nexusPool) Close()                        { _ = n.c.Stop(); synctest.Wait() }
func (n *nexusPool) Reload(uint64) error {
	_ = n.c.Stop()
	synctest.Wait()
	n.start()
	n.log = append(n.log, "reload")
	return nil
}

func TestPropNexus(t *testing.T) {
	vstat.Checks(2000, 40000)
	rapid.Check(t, func(rt *rapid.T) {
		// when the hash-collision finding is listed, 3 of 4 cases use id sets without collisions (which needs a
		// pool with room for them) so that histories reach depth; the rest keep exercising collisions
		avoidColl := vstat.IsListed("C01/nexus/duplicate") && rapid.IntRange(0, 3).Draw(rt, "exercise-collision") != 0
		lens := []int{30, 29, 28, 28, 27, 26, 24, 24}
		if avoidColl {
			lens = []int{27, 26, 25, 24, 24}
		}
		pl := rapid.SampledFrom(lens).Draw(rt, "poolLen")
		b := net.IPv4(10, byte(rapid.IntRange(0, 255).Draw(rt, "b1")), byte(rapid.IntRange(0, 255).Draw(rt, "b2")), byte(rapid.IntRange(0, 255).Draw(rt, "b3"))).To4()
		ipn := &net.IPNet{IP: b.Mask(net.CIDRMask(pl, 32)), Mask: net.CIDRMask(pl, 32)}
		hosts := uint64(1)<<uint(32-pl) - 2
		// subscriber ids: strings of the shapes provisioning uses (account numbers, circuit ids, MACs)
		shape := rapid.SampledFrom([]string{"sub-%06d", "olt1/1/%d:100", "acct%dx", "02:00:00:00:%02x:01"}).Draw(rt, "idShape")
		ids := map[string]string{}
		used := map[uint64]bool{}
		collides := false
		for _, s := range subs {
			n := rapid.IntRange(0, 200).Draw(rt, "idNum")
			id := fmt.Sprintf(shape, n)
			for try := 0; ; try++ {
				slot := nexusHash(id) % hosts
				dupID := false
				for _, o := range ids {
					dupID = dupID || o == id
				}
				if !dupID && (!avoidColl || !used[slot] || try > 400) {
					collides = collides || used[slot]
					used[slot] = true
					break
				}
				n++
				id = fmt.Sprintf(shape, n)
			}
			ids[s] = id
		}
		kinds := []pools.Kind{pools.OpAlloc, pools.OpRelease, pools.OpReload}
		ops := pools.GenOps(kinds, []int{6, 3, 1}, len(subs), 1, 30).Draw(rt, "ops")
		var m *model
		var cls []string
		msg := inBubble(t, func(ft fataler) {
			f := nexusFactory(ipn, ids, ft)
			m, cls = runHistory(ft, f, ops, runOpt{})
		})
		if msg != "" {
			rt.Fatalf("%s", msg)
		}
		if collides {
			m.nt = true // for the hash allocator a colliding id set is the (only) way a duplicate can arise
			cls = append(cls, "ids:colliding")
		} else {
			cls = append(cls, "ids:collision-free")
		}
		m.record(cls...)
	})
}

// nexusFactory builds a nexus.Client over nexus.MemoryStore with one pool record and one subscriber record
// per model subscriber (created inside the caller's synctest bubble).
func nexusFactory(ipn *net.IPNet, ids map[string]string, ft ...fataler) pools.Factory {
	ones, _ := ipn.Mask.Size()
	hosts := uint64(1)<<uint(32-ones) - 2
	return pools.Factory{
		Info: pools.Info{Impl: "nexus", Class: fmt.Sprintf("nexus/%d", ones), Net: ipn, Unit: -1, Usable: hosts, Bubble: true,
			Desc: fmt.Sprintf("nexus.Client pool %s ids %s", ipn, strings.Join(sortedVals(ids), ","))},
		New: func(int) pools.Pool {
			np := &nexusPool{store: nexus.NewMemoryStore(), ids: ids, poolID: "pool-1", hosts: hosts, held: map[string]string{}}
			if len(ft) > 0 {
				np.ft = ft[0]
			}
			np.start()
			ctx := context.Background()
			if err := np.c.Pools.Put(ctx, np.poolID, &nexus.IPPool{ID: np.poolID, CIDR: ipn.String(), Type: "residential"}); err != nil {
				panic(err)
			}
			for _, s := range subs {
				if err := np.c.SaveSubscriber(ctx, &nexus.Subscriber{ID: ids[s], IPv4Pool: np.poolID, State: "active"}); err != nil {
					panic(err)
				}
			}
			synctest.Wait()
			return np
		},
	}
}

func sortedVals(m map[string]string) []string {
	out := make([]string, 0, len(m))
	for _, s := range subs {
		out = append(out, m[s])
	}
	return out
}
