package c01

// Generic C01 machine: one generated history (list of abstract ops) is run against any
// pool implementation behind the pools.Pool adapter and compared step by step with the
// reference model of model_test.go.

import (
	"fmt"
	"testing"
	"testing/synctest"

	"pgregory.net/rapid"

	"bngverif/internal/pools"
	"bngverif/internal/vstat"
)

// capture is the Fataler used inside synctest bubbles: the verdict is carried out of the bubble as a value.
type capture struct{ msg string }

func (c *capture) Fatalf(f string, a ...any) { c.msg = fmt.Sprintf(f, a...); panic(c) }
func (c *capture) Helper()                   {}

// inBubble runs body inside a synctest bubble and returns the violation message ("" = none).
func inBubble(t *testing.T, body func(ft fataler)) (msg string) {
	synctest.Test(t, func(*testing.T) {
		c := &capture{}
		defer func() {
			if r := recover(); r != nil {
				if r == any(c) {
					msg = c.msg
					return
				}
				panic(r)
			}
		}()
		body(c)
	})
	return msg
}

type runOpt struct {
	avoid map[string]bool // kinds of listed findings this case steers around
}

// runHistory executes ops against a fresh instance of f and returns the model (for recording).
func runHistory(ft fataler, f pools.Factory, ops []pools.Op, opt runOpt) (*model, []string) {
	p := f.New(0)
	defer p.Close()
	m := newModel(f.Impl)
	m.logf("new %s", f.Desc)
	inRange := func(v string) error { return pools.RangeCheck(f.Net, f.Unit, v) }
	var lookup func(string) string
	if _, ok := p.Lookup(subs[0]); ok {
		lookup = func(s string) string { v, _ := p.Lookup(s); return v }
	}
	var reverse func(string) (string, bool)
	if _, ok := p.Reverse("192.0.2.1"); ok {
		reverse = p.Reverse
	} else if _, ok := p.Reverse("192.0.2.1/32"); ok {
		reverse = p.Reverse
	}
	ep, _ := p.(pools.Epocher)
	alt, _ := p.(pools.AltEntry)
	snap, _ := p.(pools.Snapshotter)
	touched := map[string]uint64{}
	lapsedVal := map[string]string{} // value -> the holder whose lease lapsed (not released) on it last: that holder's store record may linger
	epoch := func() uint64 {
		if ep != nil {
			return ep.Epoch()
		}
		return 0
	}
	classes := map[string]bool{}
	advances := 0
	for _, op := range ops {
		if m.dead {
			break
		}
		s := subs[op.S%len(subs)]
		if (op.K == pools.OpRelease || op.K == pools.OpRenew || op.K == pools.OpReleaseAlt || op.K == pools.OpDecline) && op.V%4 != 0 {
			// 3 of 4 release/renew ops target a current holder (else most would be no-ops on small pools)
			var holders []string
			for _, x := range subs {
				if _, ok := m.has[x]; ok {
					holders = append(holders, x)
				}
			}
			if len(holders) > 0 {
				s = holders[op.S%len(holders)]
			}
		}
		switch op.K {
		case pools.OpAlloc, pools.OpAllocAlt:
			if _, holds := m.has[s]; holds && opt.avoid["reask-changed"] {
				continue
			}
			var v string
			var err error
			if op.K == pools.OpAllocAlt {
				if alt == nil {
					continue
				}
				v, err = alt.AllocAlt(s)
				m.logf("allocAlt(%s)=%s,%s", s, v, okerr(err))
				classes["alloc-alt"] = true
			} else {
				v, err = p.Alloc(s)
				m.logf("alloc(%s)=%s,%s", s, v, okerr(err))
			}
			if err != nil {
				if held, holds := m.has[s]; holds {
					m.fail(ft, "reask-failed", "alloc(%s) failed (%v) although it holds %s", s, err, held)
				}
				continue
			}
			if _, holds := m.has[s]; holds {
				classes["reask"] = true
			}
			m.onAlloc(ft, s, v, inRange, lookup)
			touched[s] = epoch()
		case pools.OpRelease, pools.OpReleaseAlt:
			var err error
			if op.K == pools.OpReleaseAlt {
				if alt == nil {
					continue
				}
				err = alt.ReleaseAlt(s)
				m.logf("releaseAlt(%s)=%s", s, okerr(err))
				classes["release-alt"] = true
			} else {
				err = p.Release(s)
				m.logf("release(%s)=%s", s, okerr(err))
			}
			if err != nil {
				if held, holds := m.has[s]; holds {
					m.fail(ft, "release-failed", "release(%s) failed (%v) although it holds %s", s, err, held)
				}
				continue
			}
			m.onFree(s)
			delete(touched, s)
		case pools.OpRenew:
			r, ok := p.(pools.Renewer)
			if !ok {
				continue
			}
			err := r.Renew(s)
			m.logf("renew(%s)=%s", s, okerr(err))
			if held, holds := m.has[s]; holds {
				if err != nil {
					m.fail(ft, "renew-failed", "renew(%s) failed (%v) although it holds %s within grace", s, err, held)
					continue
				}
				touched[s] = epoch()
			}
		case pools.OpAdvance:
			if ep == nil {
				continue
			}
			e := ep.Advance()
			advances++
			m.logf("advance->%d", e)
			for _, x := range subs { // fixed order: no map iteration in the oracle's log
				if at, ok := touched[x]; ok && e-at > f.Grace {
					if v, holds := m.has[x]; holds {
						lapsedVal[v] = x
					}
					m.onFree(x) // lease lapsed without renewal
					delete(touched, x)
				}
			}
		case pools.OpReload:
			r, ok := p.(pools.Reloader)
			if !ok || opt.avoid["reload-changed"] {
				continue
			}
			if err := r.Reload(op.P); err != nil {
				m.logf("reload=err")
				continue
			}
			m.logf("reload(perm=%x)", op.P)
			classes["reload"] = true
			if lookup != nil {
				for _, x := range subs {
					if want, holds := m.has[x]; holds {
						if got := lookup(x); got != want {
							kind := "reload-changed"
							if h, ok := lapsedVal[want]; ok && h != x && lookup(h) == want {
								// the value was re-assigned after an earlier holder's lease lapsed, and it is that
								// lapsed holder's lingering store record that won the conflict on reload (the listed
								// shape); any other way of losing the value at reload keeps the plain signature
								kind = "reload-changed/value-of-lapsed-holder"
							}
							m.fail(ft, kind, "after reload %s has %q, it was handed %q and never gave it up", x, got, want)
							break
						}
					}
				}
			}
			if f.Epochal {
				// a restarted lease-mode instance starts its epoch counter afresh and re-reads every
				// stored record as a current lease
				for x := range touched {
					touched[x] = epoch()
				}
				if lookup != nil && !m.dead {
					// ... including the not-yet-cleaned record of a lease that had lapsed: the subscriber holds
					// its old value again (observed, not assumed). That is no violation as long as nobody else
					// holds the value; the model adopts it so that later steps are judged against what the
					// restarted instance really holds.
					for _, x := range subs {
						if _, holds := m.has[x]; holds {
							continue
						}
						if got := lookup(x); got != "" {
							if _, taken := m.holder[got]; !taken {
								m.logf("reload resurrected lapsed %s=%s", x, got)
								m.onAlloc(ft, x, got, inRange, lookup)
								touched[x] = epoch()
							}
						}
					}
				}
				m.freed = map[string]string{}
				// lapsedVal is kept: a stale record that lost (or won) the conflict stays in the store across reloads
			}
		case pools.OpRemoteSet, pools.OpRemoteDel:
			rm, ok := p.(pools.Remote)
			if !ok || opt.avoid["remote-not-applied"] {
				continue
			}
			if op.K == pools.OpRemoteDel {
				rm.RemoteDelete(s)
				m.logf("remoteDel(%s)", s)
				m.onFree(s)
				delete(touched, s)
				classes["remote"] = true
				continue
			}
			ix := p.(pools.Indexer)
			lo, span := 0, uint64(10)
			if f.Epochal {
				lo = 1 // index 0 and the last index are never assigned by any node
			}
			if f.Usable < span {
				span = f.Usable
			}
			if span == 0 {
				continue
			}
			v := ix.ValueAt(lo + op.V%int(span))
			if o, held := m.holder[v]; held && o != s {
				s = o // a record for a value somebody holds can only be that holder's record: re-applied identical record
			}
			identical := m.has[s] == v
			if identical {
				classes["remote-identical"] = true
			}
			rm.RemoteSet(s, v)
			m.logf("remoteSet(%s,%s)", s, v)
			classes["remote"] = true
			if lookup != nil {
				if got := lookup(s); got != v {
					if owner, ok := p.Reverse(v); f.Epochal && classes["reload"] && ok && owner != "" && owner != s && m.has[owner] == "" {
						// after a restart a lease-mode instance re-reads records of lapsed leases that the store
						// has not cleaned yet (restart semantics are C12's concern): the value is taken by such
						// a record, the peer's write legitimately loses; nothing to decide here
						m.logf("remote write lost against a record re-read at restart (%s)", owner)
						continue
					}
					m.fail(ft, "remote-not-applied", "the shared store records %s -> %s (written by a peer), this node reports %q", s, v, got)
					continue
				}
			}
			if m.has[s] != v {
				m.onFree(s) // the authoritative record moved s to v
			}
			m.onAlloc(ft, s, v, inRange, lookup)
			if _, was := touched[s]; !identical || !was {
				// a re-applied identical record is not taken as a renewal (the statement does not say a
				// peer's record extends the local lease); a new or moved assignment starts a lease now
				touched[s] = epoch()
			}
		case pools.OpDecline:
			d, ok := p.(pools.Decliner)
			if !ok {
				continue
			}
			d.Decline(s)
			m.logf("decline(%s)", s)
			if v, holds := m.has[s]; holds {
				classes["decline"] = true
				m.logf("(declined %s)", v)
			}
			m.onFree(s) // the binding ends; the value is taken out of service, not handed to anybody
			delete(touched, s)
		default:
			continue
		}
		if m.dead {
			break
		}
		if lookup != nil {
			m.crossCheck(ft, lookup, reverse)
		}
		if snap != nil && !m.dead {
			m.stateCheck(ft, snap, inRange)
		}
	}
	var cls []string
	cls = append(cls, "geom:"+f.Class)
	if f.Epochal {
		cls = append(cls, fmt.Sprintf("grace:%d", f.Grace))
		if advances >= 3 {
			cls = append(cls, "advances>=3")
		}
	}
	for _, c := range []string{"reask", "reload", "remote", "remote-identical", "alloc-alt", "release-alt", "decline"} {
		if classes[c] {
			cls = append(cls, "has:"+c)
			if c == "alloc-alt" || c == "release-alt" || c == "decline" {
				cls = append(cls, "has:"+c+"/"+f.Impl)
			}
		}
	}
	return m, cls
}

// steer returns the set of listed-finding kinds a case avoids (7 of 8 cases) so that histories reach depth;
// the remaining cases still exercise them.
func steer(rt *rapid.T, impl string, kinds ...string) map[string]bool {
	avoid := map[string]bool{}
	for _, k := range kinds {
		if vstat.IsListed("C01/" + impl + "/" + k) {
			if rapid.IntRange(0, 7).Draw(rt, "exercise-"+k) != 0 {
				avoid[k] = true
			}
		}
	}
	return avoid
}

var baseKinds = []pools.Kind{pools.OpAlloc, pools.OpRelease}

// altKinds adds the implementation's second entry point for the same requests (pools.AltEntry).
var altKinds = []pools.Kind{pools.OpAlloc, pools.OpRelease, pools.OpAllocAlt, pools.OpReleaseAlt}

func TestPropDistSession(t *testing.T) {
	vstat.Checks(2500, 50000)
	kinds := []pools.Kind{pools.OpAlloc, pools.OpRelease, pools.OpReload, pools.OpRemoteSet, pools.OpRemoteDel, pools.OpAllocAlt}
	rapid.Check(t, func(rt *rapid.T) {
		g := pools.GenGeom(true, true).Draw(rt, "geometry")
		echo := rapid.Bool().Draw(rt, "echo")
		f := pools.DistFactory(g.CIDR, g.Unit, false, 0, echo, g.Class, nil)
		ops := pools.GenOps(kinds, []int{6, 4, 1, 2, 1, 3}, len(subs), 1, 40).Draw(rt, "ops")
		m, cls := runHistory(rt, f, ops, runOpt{})
		m.record(cls...)
	})
}

func TestPropDistLease(t *testing.T) {
	vstat.Checks(2500, 50000)
	kinds := []pools.Kind{pools.OpAlloc, pools.OpRelease, pools.OpRenew, pools.OpAdvance, pools.OpReload, pools.OpRemoteSet, pools.OpRemoteDel, pools.OpAllocAlt}
	rapid.Check(t, func(rt *rapid.T) {
		cidr := pools.GenEpochNet(false).Draw(rt, "net")
		grace := rapid.SampledFrom([]int{0, 1, 1, 2}).Draw(rt, "grace")
		echo := rapid.Bool().Draw(rt, "echo")
		ops := pools.GenOps(kinds, []int{6, 3, 3, 4, 1, 2, 1, 3}, len(subs), 1, 40).Draw(rt, "ops")
		opt := runOpt{avoid: steer(rt, "dist-lease", "reload-changed", "remote-not-applied")}
		var m *model
		var cls []string
		msg := inBubble(t, func(ft fataler) {
			f := pools.DistFactory(cidr, 32, true, grace, echo, "lease", synctest.Wait)
			m, cls = runHistory(ft, f, ops, opt)
		})
		if msg != "" {
			rt.Fatalf("%s", msg)
		}
		m.record(cls...)
	})
}

func TestPropLocalAlloc(t *testing.T) {
	vstat.Checks(2500, 50000)
	rapid.Check(t, func(rt *rapid.T) {
		g := pools.GenGeom(true, true).Draw(rt, "geometry")
		f := pools.LocalFactory(g.CIDR, g.Unit, g.Class)
		if rapid.Bool().Draw(rt, "direct") {
			f = pools.PoolAllocFactory(g.CIDR, g.Unit, g.Class, false)
		}
		ops := pools.GenOps(altKinds, []int{3, 3, 2, 0}, len(subs), 1, 40).Draw(rt, "ops")
		m, cls := runHistory(rt, f, ops, runOpt{})
		m.record(cls...)
	})
}

func TestPropDHCP4(t *testing.T) {
	vstat.Checks(2500, 50000)
	rapid.Check(t, func(rt *rapid.T) {
		n := pools.GenDHCP4().Draw(rt, "cfg")
		f := pools.DHCP4Factory(n.CIDR, n.Gateway, n.ReservedStart, n.ReservedEnd, n.Class)
		ops := pools.GenOps(baseKinds, []int{2, 1}, len(subs), 1, 40).Draw(rt, "ops")
		m, cls := runHistory(rt, f, ops, runOpt{})
		m.record(cls...)
	})
}

func TestPropDHCP6(t *testing.T) {
	vstat.Checks(2500, 50000)
	rapid.Check(t, func(rt *rapid.T) {
		var f pools.Factory
		kinds, weights := baseKinds, []int{2, 1}
		if rapid.Bool().Draw(rt, "pd") {
			g := pools.GenV6PD().Draw(rt, "pd-geometry")
			f = pools.V6PrefixFactory(g.CIDR, g.Unit, g.Class)
		} else {
			g := pools.GenV6Addr().Draw(rt, "addr-geometry")
			f = pools.V6AddrFactory(g.CIDR, g.Class)
			// the address pool also has Decline (DHCPv6 Decline: binding ends, address taken out of service)
			kinds, weights = []pools.Kind{pools.OpAlloc, pools.OpRelease, pools.OpDecline}, []int{5, 2, 2}
		}
		ops := pools.GenOps(kinds, weights, len(subs), 1, 40).Draw(rt, "ops")
		m, cls := runHistory(rt, f, ops, runOpt{})
		m.record(cls...)
	})
}

func TestPropPPPoEPool(t *testing.T) {
	vstat.Checks(2500, 50000)
	rapid.Check(t, func(rt *rapid.T) {
		n := pools.GenV4Net().Draw(rt, "net")
		f := pools.PPPoEFactory(n.CIDR, n.Gateway, n.Class)
		ops := pools.GenOps(baseKinds, []int{2, 1}, len(subs), 1, 40).Draw(rt, "ops")
		m, cls := runHistory(rt, f, ops, runOpt{avoid: steer(rt, "pppoe", "reask-changed")})
		m.record(cls...)
	})
}

func TestPropPeerLocal(t *testing.T) {
	vstat.Checks(2500, 50000)
	rapid.Check(t, func(rt *rapid.T) {
		n := pools.GenV4Net().Draw(rt, "net")
		f := pools.PeerFactory(n.CIDR, n.Gateway, n.Class)
		ops := pools.GenOps(altKinds, []int{3, 2, 3, 2}, len(subs), 1, 40).Draw(rt, "ops")
		m, cls := runHistory(rt, f, ops, runOpt{})
		m.record(cls...)
	})
}
