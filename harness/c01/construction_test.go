package c01

// Construction-time oracle: pool GEOMETRY is a generated dimension of its own, and what a constructor computes
// arithmetically is judged right after construction, without draining the pool.
//
// Free-list pools (dhcp.Pool, dhcpv6.AddressPool, dhcpv6.PrefixPool, pppoe.IPPool, pool.PeerPool's LocalPool):
// the free list the constructor built (copied through the verif accessors) must list exactly the documented
// number of units, all distinct, all inside the configured range, each of the unit length and aligned to it, none
// equal to a value the constructor documents as excluded - compared with an independent enumeration of the range
// done here with math/big. Documented sizes (read from the constructors' comments):
//   dhcp.Pool        hosts 1..2^h-2 (network and broadcast excluded), minus the first ReservedStart and the last
//                    ReservedEnd hosts, minus the gateway; /31 and /32 are empty
//   pool.LocalPool   hosts 1..2^h-2 minus the gateway; /31 and /32 are empty
//   pppoe.IPPool     "skip network, gateway, and broadcast": every address after the network address except the
//                    gateway; the subnet broadcast address is tolerated either way (C01 demands "inside the
//                    configured range"; the existing adapters already allow this one extra unit)
//   AddressPool      "just first 1000": the addresses base+1 .. base+min(1000, size-1)
//   PrefixPool       min(2^(delegation-pool), 1000) prefixes ("Limit for memory"); which 1000 is not documented,
//                    so above the cap only count/distinct/in-range/aligned are demanded, below it the exact set
// Bitmap allocators (allocator.IPAllocator, EpochBitmapAllocator) have no list; their index arithmetic is probed
// through the public API on a fresh instance: Stats reports the documented number of units; a record for the unit
// with a generated index i (0, 1, last, powers of two and their neighbours, random; i computed here with math/big)
// is accepted and the allocator's own lookup, reverse lookup and listing report exactly that unit and index; the
// first unit beyond the pool (and, for the epoch allocator, network and broadcast) is refused.
//
// Signatures: C01/<impl>/construction/{duplicate-unit, unit-outside-range, unit-misaligned, unit-count, excluded-unit}.

import (
	"context"
	"fmt"
	"math/big"
	"net"
	"testing"
	"time"

	"github.com/codelaboratoryltd/bng/pkg/allocator"
	"github.com/codelaboratoryltd/bng/pkg/dhcp"
	"github.com/codelaboratoryltd/bng/pkg/dhcpv6"
	"github.com/codelaboratoryltd/bng/pkg/pool"
	"github.com/codelaboratoryltd/bng/pkg/pppoe"
	"pgregory.net/rapid"

	"bngverif/internal/vstat"
)

// ---------------------------------------------------------------- independent arithmetic

// unitAt returns base + idx*2^(bits-unit) as an address of the base's family.
func unitAt(base net.IP, bits, unit int, idx *big.Int) net.IP {
	off := new(big.Int).Lsh(idx, uint(bits-unit))
	v := new(big.Int).SetBytes(base)
	v.Add(v, off)
	raw := v.Bytes()
	ip := make(net.IP, bits/8)
	if len(raw) > len(ip) {
		return nil // beyond the address space
	}
	copy(ip[len(ip)-len(raw):], raw)
	return ip
}

func normBase(n *net.IPNet) (net.IP, int, int) {
	ones, bits := n.Mask.Size()
	if bits == 32 {
		return n.IP.To4(), ones, bits
	}
	return n.IP.To16(), ones, bits
}

// pow2 returns 2^k.
func pow2(k int) *big.Int { return new(big.Int).Lsh(big.NewInt(1), uint(k)) }

// ---------------------------------------------------------------- geometry generators (every length, unaligned bases)

// genV4Pool draws an IPv4 network of ANY length in [minLen,32]: sizes 1 .. 2^(32-minLen), bases with random bits
// (so a /19, /21, /27 base is not byte-aligned). Small and mid sizes are weighted; every length occurs.
func genV4Pool(t *rapid.T, minLen int) *net.IPNet {
	var pl int
	if minLen <= 17 && rapid.IntRange(0, 49).Draw(t, "hugeV4") == 0 {
		// more than 65536 addresses: host numbers carry across two byte boundaries
		pl = rapid.IntRange(max(minLen, 14), 17).Draw(t, "poolLen")
		b := net.IPv4(byte(rapid.IntRange(1, 223).Draw(t, "b0")), byte(rapid.IntRange(0, 255).Draw(t, "b1")), 0, 0).To4()
		return &net.IPNet{IP: b.Mask(net.CIDRMask(pl, 32)), Mask: net.CIDRMask(pl, 32)}
	}
	switch rapid.IntRange(0, 9).Draw(t, "sizeClass") {
	case 0, 1, 2: // 1..16 addresses
		pl = rapid.IntRange(28, 32).Draw(t, "poolLen")
	case 3, 4, 5, 6: // 32..1024
		pl = rapid.IntRange(22, 27).Draw(t, "poolLen")
	case 7: // 2048..4096
		pl = rapid.IntRange(max(minLen, 20), 21).Draw(t, "poolLen")
	case 8: // 64..512
		pl = rapid.IntRange(23, 26).Draw(t, "poolLen")
	default:
		lo := minLen
		if minLen >= 14 {
			lo = 18 // the constructors that build a list: larger ones only through the rare class above
		}
		pl = rapid.IntRange(lo, 32).Draw(t, "poolLen")
	}
	b := net.IPv4(byte(rapid.IntRange(1, 223).Draw(t, "b0")), byte(rapid.IntRange(0, 255).Draw(t, "b1")),
		byte(rapid.IntRange(0, 255).Draw(t, "b2")), byte(rapid.IntRange(0, 255).Draw(t, "b3"))).To4()
	return &net.IPNet{IP: b.Mask(net.CIDRMask(pl, 32)), Mask: net.CIDRMask(pl, 32)}
}

func genV6Base(t *rapid.T, pl int) *net.IPNet {
	b := make(net.IP, 16)
	b[0] = byte(0x20 + rapid.IntRange(0, 0x1f).Draw(t, "b0"))
	for i := 1; i < 16; i++ {
		b[i] = byte(rapid.IntRange(0, 255).Draw(t, "b"))
	}
	return &net.IPNet{IP: b.Mask(net.CIDRMask(pl, 128)), Mask: net.CIDRMask(pl, 128)}
}

// genGateway draws a gateway for an IPv4 pool: first/last host, a middle host, the network or broadcast address,
// or an address outside the network.
func genGateway(t *rapid.T, n *net.IPNet) (net.IP, string) {
	base, ones, _ := normBase(n)
	size := 1 << uint(32-ones)
	cls := rapid.SampledFrom([]string{"first", "first", "last", "mid", "mid", "outside", "network", "broadcast"}).Draw(t, "gwClass")
	idx := 0
	switch cls {
	case "first":
		idx = 1
	case "last":
		idx = size - 2
	case "mid":
		idx = rapid.IntRange(0, size-1).Draw(t, "gwIdx")
	case "broadcast":
		idx = size - 1
	case "outside":
		return net.IPv4(198, 51, 100, 1).To4(), cls
	}
	if idx < 0 {
		idx = 0
	}
	return unitAt(base, 32, 32, big.NewInt(int64(idx))), cls
}

// ---------------------------------------------------------------- the free-list oracle

type consFail struct{ kind, msg string }

// checkUnits compares a constructor's free list with the expectation.
//
//	want      exact expected set (nil when only the count is documented)
//	wantN     expected count; altN >= 0 is a second admissible count (pppoe's tolerated broadcast address)
//	rangeNet  configured range; unit = prefix length of the values (-1 = bare addresses)
//	excluded  values documented as never handed out
func checkUnits(got []string, want map[string]bool, wantN, altN int, rangeNet *net.IPNet, unit int, excluded map[string]string, extraOK map[string]bool) *consFail {
	seen := map[string]int{}
	for i, v := range got {
		if j, dup := seen[v]; dup {
			return &consFail{"duplicate-unit", fmt.Sprintf("free-list entries %d and %d are both %s", j, i, v)}
		}
		seen[v] = i
		var ip net.IP
		if unit >= 0 {
			pip, pn, err := net.ParseCIDR(v)
			if err != nil {
				return &consFail{"unit-misaligned", fmt.Sprintf("free-list entry %d = %q is not a prefix", i, v)}
			}
			o, _ := pn.Mask.Size()
			if o != unit {
				return &consFail{"unit-misaligned", fmt.Sprintf("free-list entry %d = %s has length /%d, the pool hands out /%d", i, v, o, unit)}
			}
			if !pip.Equal(pn.IP) {
				return &consFail{"unit-misaligned", fmt.Sprintf("free-list entry %d = %s is not aligned to /%d", i, v, unit)}
			}
			ip = pip
		} else if ip = net.ParseIP(v); ip == nil {
			return &consFail{"unit-misaligned", fmt.Sprintf("free-list entry %d = %q is not an address", i, v)}
		}
		if !rangeNet.Contains(ip) {
			return &consFail{"unit-outside-range", fmt.Sprintf("free-list entry %d = %s is outside %s", i, v, rangeNet)}
		}
		if why, bad := excluded[v]; bad {
			return &consFail{"excluded-unit", fmt.Sprintf("free-list entry %d = %s is the %s, which the constructor documents as excluded", i, v, why)}
		}
		if want != nil && !want[v] && !extraOK[v] {
			return &consFail{"unit-outside-range", fmt.Sprintf("free-list entry %d = %s is inside %s but not one of the documented units", i, v, rangeNet)}
		}
	}
	if len(got) != wantN && (altN < 0 || len(got) != altN) {
		return &consFail{"unit-count", fmt.Sprintf("the free list has %d units, documented: %d", len(got), wantN)}
	}
	return nil
}

func sizeClass(n int) string {
	switch {
	case n == 0:
		return "units:0"
	case n <= 8:
		return "units:1-8"
	case n <= 255:
		return "units:9-255"
	case n <= 1023:
		return "units:256-1023"
	case n <= 2047:
		return "units:1024-2047"
	default:
		return "units:>=2048"
	}
}

// v4Hosts enumerates base+1 .. base+2^h-2 (empty for /31, /32).
func v4HostList(n *net.IPNet) []string {
	base, ones, _ := normBase(n)
	size := 1 << uint(32-ones)
	out := make([]string, 0, max(0, size-2))
	b := uint32(base[0])<<24 | uint32(base[1])<<16 | uint32(base[2])<<8 | uint32(base[3])
	for i := 1; i <= size-2; i++ {
		x := b + uint32(i)
		out = append(out, net.IPv4(byte(x>>24), byte(x>>16), byte(x>>8), byte(x)).String())
	}
	return out
}

func v4Edges(n *net.IPNet) (network, broadcast string) {
	base, ones, _ := normBase(n)
	size := 1 << uint(32-ones)
	return base.String(), unitAt(base, 32, 32, big.NewInt(int64(size-1))).String()
}

func TestPropConstructFreeList(t *testing.T) {
	vstat.Checks(2000, 40000)
	rapid.Check(t, func(rt *rapid.T) {
		impl := rapid.SampledFrom([]string{"dhcp4", "peer", "pppoe", "dhcp6-addr", "dhcp6-pd", "dhcp6-pd", "dhcp6-pd"}).Draw(rt, "impl")
		var cf *consFail
		var desc string
		var cls []string
		n := 0
		switch impl {
		case "dhcp4":
			ipn := genV4Pool(rt, 14)
			gw, gcls := genGateway(rt, ipn)
			hosts := v4HostList(ipn)
			rs := rapid.IntRange(0, 5).Draw(rt, "reservedStart")
			re := rapid.IntRange(0, 5).Draw(rt, "reservedEnd")
			if rapid.IntRange(0, 9).Draw(rt, "bigReserve") == 0 {
				rs = rapid.IntRange(0, len(hosts)+2).Draw(rt, "reservedStartBig")
				re = rapid.IntRange(0, len(hosts)+2).Draw(rt, "reservedEndBig")
			}
			desc = fmt.Sprintf("dhcp.NewPool(%s,gw=%s,reserved=%d/%d)", ipn, gw, rs, re)
			p, err := dhcp.NewPool(dhcp.PoolConfig{ID: 1, Name: "p", Network: ipn.String(), Gateway: gw.String(), LeaseTime: time.Hour, ReservedStart: rs, ReservedEnd: re})
			if err != nil {
				rt.Fatalf("generator produced a configuration the constructor rejects: %v", err)
			}
			want := map[string]bool{}
			excl := map[string]string{gw.String(): "gateway"}
			nw, bc := v4Edges(ipn)
			excl[nw], excl[bc] = "network address", "broadcast address"
			for i, h := range hosts { // i+1 is the host number
				switch {
				case i+1 <= rs:
					excl[h] = "reserved range at the start"
				case i+1 > len(hosts)-re:
					excl[h] = "reserved range at the end"
				case h == gw.String():
				default:
					want[h] = true
				}
			}
			st := p.VerifState()
			n = len(want)
			cf = checkUnits(st.Available, want, n, -1, ipn, -1, excl, nil)
			cls = append(cls, "gw:"+gcls)
		case "peer":
			ipn := genV4Pool(rt, 14)
			gw, gcls := genGateway(rt, ipn)
			desc = fmt.Sprintf("pool.NewPeerPool(%s,gw=%s)", ipn, gw)
			p, err := pool.NewPeerPool(pool.PeerPoolConfig{NodeID: "node-a", Network: ipn.String(), Gateway: gw.String(), LeaseTime: time.Hour})
			if err != nil {
				rt.Fatalf("generator produced a configuration the constructor rejects: %v", err)
			}
			want := map[string]bool{}
			nw, bc := v4Edges(ipn)
			excl := map[string]string{gw.String(): "gateway", nw: "network address", bc: "broadcast address"}
			for _, h := range v4HostList(ipn) {
				if h != gw.String() {
					want[h] = true
				}
			}
			_, _, free := p.VerifLocalState()
			n = len(want)
			cf = checkUnits(free, want, n, -1, ipn, -1, excl, nil)
			cls = append(cls, "gw:"+gcls)
		case "pppoe":
			ipn := genV4Pool(rt, 14)
			gw, gcls := genGateway(rt, ipn)
			desc = fmt.Sprintf("pppoe.NewIPPool(%s,gw=%s)", ipn, gw)
			p, err := pppoe.NewIPPool(ipn.String(), gw.String())
			if err != nil {
				rt.Fatalf("generator produced a configuration the constructor rejects: %v", err)
			}
			want := map[string]bool{}
			nw, bc := v4Edges(ipn)
			excl := map[string]string{gw.String(): "gateway"}
			if nw != bc {
				excl[nw] = "network address"
			}
			for _, h := range v4HostList(ipn) {
				if h != gw.String() {
					want[h] = true
				}
			}
			// the subnet broadcast address: documented as skipped, handed out by the implementation; tolerated (see header)
			extra := map[string]bool{}
			alt := -1
			if nw != bc && bc != gw.String() {
				extra[bc] = true
				alt = len(want) + 1
			}
			_, free := p.VerifState()
			n = len(want)
			cf = checkUnits(free, want, n, alt, ipn, -1, excl, extra)
			cls = append(cls, "gw:"+gcls)
		case "dhcp6-addr":
			pl := rapid.IntRange(112, 128).Draw(rt, "poolLen")
			if rapid.IntRange(0, 3).Draw(rt, "wide") == 0 {
				pl = rapid.IntRange(16, 128).Draw(rt, "poolLenWide")
			}
			ipn := genV6Base(rt, pl)
			desc = fmt.Sprintf("dhcpv6.NewAddressPool(%s)", ipn)
			p, err := dhcpv6.NewAddressPool(ipn.String(), 3600, 7200)
			if err != nil {
				rt.Fatalf("generator produced a configuration the constructor rejects: %v", err)
			}
			size := pow2(128 - pl)
			n = 1000
			if size.Cmp(big.NewInt(1001)) < 0 {
				n = int(size.Int64()) - 1
			}
			want := map[string]bool{}
			for i := 1; i <= n; i++ {
				want[unitAt(ipn.IP.To16(), 128, 128, big.NewInt(int64(i))).String()] = true
			}
			_, free := p.VerifState()
			cf = checkUnits(free, want, n, -1, ipn, -1, nil, nil)
			cls = append(cls, fmt.Sprintf("poolLen%%8=%d", pl%8))
		default: // dhcp6-pd
			var pl, d int
			switch rapid.IntRange(0, 5).Draw(rt, "pdClass") {
			case 0: // the usual provider geometries
				pair := rapid.SampledFrom([][2]int{{48, 56}, {48, 60}, {48, 64}, {56, 64}, {40, 56}, {32, 48}, {44, 52}, {36, 48}}).Draw(rt, "pair")
				pl, d = pair[0], pair[1]
			case 1, 2, 3: // 2..4096 prefixes (around the cap), every alignment of pool and delegation length
				pl = rapid.IntRange(16, 120).Draw(rt, "poolLen")
				d = pl + rapid.IntRange(1, 12).Draw(rt, "delta")
			default: // far above the cap
				pl = rapid.IntRange(8, 100).Draw(rt, "poolLen")
				d = pl + rapid.IntRange(13, min(62, 128-pl)).Draw(rt, "delta")
			}
			if d > 128 {
				d = 128
			}
			ipn := genV6Base(rt, pl)
			desc = fmt.Sprintf("dhcpv6.NewPrefixPool(%s,/%d)", ipn, d)
			p, err := dhcpv6.NewPrefixPool(ipn.String(), uint8(d), 3600, 7200)
			if err != nil {
				rt.Fatalf("generator produced a configuration the constructor rejects: %v", err)
			}
			n = 1000
			var want map[string]bool
			if d-pl < 10 {
				n = 1 << uint(d-pl)
				want = map[string]bool{}
				for i := 0; i < n; i++ {
					u := unitAt(ipn.IP.To16(), 128, d, big.NewInt(int64(i)))
					want[(&net.IPNet{IP: u, Mask: net.CIDRMask(d, 128)}).String()] = true
				}
			}
			_, free := p.VerifState()
			cf = checkUnits(free, want, n, -1, ipn, d, nil, nil)
			cls = append(cls, fmt.Sprintf("delegLen%%8=%d", d%8), fmt.Sprintf("poolLen%%8=%d", pl%8))
			if d-pl >= 10 {
				cls = append(cls, "pd:capped")
			}
		}
		if cf != nil {
			if vstat.Fail(rt, "C01/"+impl+"/construction/"+cf.kind, "%s: %s", desc, cf.msg) {
				return
			}
		}
		cls = append(cls, "impl:"+impl+"-construction", "construct:"+impl+"/"+sizeClass(n), sizeClass(n))
		vstat.Case(n >= 2, vstat.Hash("construct", desc), func() any { return map[string]any{"constructor": desc, "units": n} }, cls...)
	})
}

// ---------------------------------------------------------------- bitmap allocators: index arithmetic through the public API

// probeCap bounds the probed indices: IPAllocator keeps its bitmap in a big.Int whose size is the highest index
// ever set / 8 bytes, so a record for index 2^40 costs 128 GiB (a cost of the implementation that real use - first-free
// allocation - never meets). Probes stay below 2^20 (128 KiB); of larger pools only that lower part is probed.
const probeCap = 1 << 20

// genProbeIdx draws unit indices below min(total, probeCap).
func genProbeIdx(t *rapid.T, total *big.Int) []*big.Int {
	lim := new(big.Int).Set(total)
	if c := big.NewInt(probeCap); lim.Cmp(c) > 0 {
		lim = c
	}
	var out []*big.Int
	seen := map[string]bool{}
	add := func(x *big.Int) {
		if x.Sign() >= 0 && x.Cmp(lim) < 0 && !seen[x.String()] {
			seen[x.String()] = true
			out = append(out, x)
		}
	}
	add(big.NewInt(0))
	add(big.NewInt(1))
	add(new(big.Int).Sub(lim, big.NewInt(1)))
	add(new(big.Int).Sub(lim, big.NewInt(2)))
	for k := 0; k < 4; k++ {
		e := rapid.IntRange(1, 20).Draw(t, "pow")
		add(pow2(e))
		add(new(big.Int).Sub(pow2(e), big.NewInt(1)))
		add(new(big.Int).Add(pow2(e), big.NewInt(1)))
	}
	for k := 0; k < 3; k++ {
		r := new(big.Int).SetUint64(rapid.Uint64().Draw(t, "rnd"))
		add(r.Mod(r, lim))
	}
	return out
}

func TestPropConstructBitmap(t *testing.T) {
	vstat.Checks(2000, 40000)
	ctx := context.Background()
	rapid.Check(t, func(rt *rapid.T) {
		impl := rapid.SampledFrom([]string{"bitmap", "bitmap", "epoch"}).Draw(rt, "impl")
		var desc string
		var cls []string
		fail := func(kind, f string, a ...any) bool {
			return vstat.Fail(rt, "C01/"+impl+"/construction/"+kind, "%s: %s", desc, fmt.Sprintf(f, a...))
		}
		if impl == "bitmap" {
			var ipn *net.IPNet
			var unit int
			if rapid.Bool().Draw(rt, "v6") {
				pl := rapid.IntRange(8, 128).Draw(rt, "poolLen")
				ipn = genV6Base(rt, pl)
				unit = rapid.IntRange(pl, 128).Draw(rt, "unit")
				if rapid.Bool().Draw(rt, "near") {
					unit = min(128, pl+rapid.IntRange(0, 14).Draw(rt, "delta"))
				}
			} else {
				ipn = genV4Pool(rt, 8)
				pl, _ := ipn.Mask.Size()
				unit = rapid.IntRange(pl, 32).Draw(rt, "unit")
			}
			base, pl, bits := normBase(ipn)
			desc = fmt.Sprintf("NewIPAllocator(%s,/%d)", ipn, unit)
			a, err := allocator.NewIPAllocator(ipn.String(), unit)
			if err != nil {
				rt.Fatalf("generator produced a geometry the constructor rejects: %v", err)
			}
			total := pow2(unit - pl)
			wantTotal := ^uint64(0)
			if total.IsUint64() {
				wantTotal = total.Uint64()
			}
			if _, tot, _ := a.Stats(); tot != wantTotal {
				if fail("unit-count", "Stats reports %d units, documented 2^(%d-%d)", tot, unit, pl) {
					return
				}
			}
			mk := func(i *big.Int) *net.IPNet {
				u := unitAt(base, bits, unit, i)
				if u == nil {
					return nil
				}
				return &net.IPNet{IP: u, Mask: net.CIDRMask(unit, bits)}
			}
			for k, i := range genProbeIdx(rt, total) {
				s := fmt.Sprintf("p%d", k)
				want := mk(i)
				if err := a.AllocateSpecific(s, want); err != nil {
					if fail("unit-outside-range", "unit %s (index %s of %s) of the pool is refused: %v", want, i, total, err) {
						return
					}
				}
				if got := cidrOf(a.Lookup(s)); got != want.String() {
					if fail("unit-misaligned", "the record for unit %s (index %s) reads back as %s", want, i, got) {
						return
					}
				}
				if got := a.LookupByPrefix(want); got != s {
					if fail("unit-misaligned", "reverse lookup of unit %s (index %s) names %q, recorded for %s", want, i, got, s) {
						return
					}
				}
				found := false
				for _, al := range a.ListAllocations() {
					if al.SubscriberID == s {
						found = true
						if al.Index != i.Uint64() || cidrOf(al.Prefix) != want.String() {
							if fail("unit-misaligned", "listing shows %s at index %d for the record of unit %s (index %s)", cidrOf(al.Prefix), al.Index, want, i) {
								return
							}
						}
					}
				}
				if !found {
					if fail("unit-count", "the record for unit %s (index %s) is not listed", want, i) {
						return
					}
				}
			}
			// the first unit beyond the pool, and the last one before it, are not units of the pool
			if beyond := mk(total); beyond != nil && total.Cmp(big.NewInt(probeCap)) <= 0 {
				if err := a.AllocateSpecific("beyond", beyond); err == nil {
					if fail("unit-outside-range", "%s, the first /%d after the pool, is accepted as a unit (reads back as %s)", beyond, unit, cidrOf(a.Lookup("beyond"))) {
						return
					}
				}
			}
			if v, err := a.Allocate("first"); err == nil {
				if e := rangeCheck(ipn, unit, cidrOf(v)); e != nil {
					if fail("unit-outside-range", "first allocation: %v", e) {
						return
					}
				}
			}
			cls = append(cls, fmt.Sprintf("unit%%8=%d", unit%8), fmt.Sprintf("family:%d", bits))
			switch d := unit - pl; {
			case d >= 64:
				cls = append(cls, "units:>=2^64")
			case d > 11:
				cls = append(cls, "units:>=2048")
			default:
				cls = append(cls, sizeClass(1<<uint(d)))
			}
			if bits-unit >= 64 {
				cls = append(cls, "step>=2^64")
			}
		} else {
			ipn := genV4Pool(rt, 14)
			base, pl, _ := normBase(ipn)
			size := 1 << uint(32-pl)
			desc = fmt.Sprintf("NewEpochBitmapAllocator(%s,/32)", ipn)
			a, err := allocator.NewEpochBitmapAllocator(allocator.EpochBitmapConfig{BaseNetwork: ipn.String(), PrefixLength: 32, GracePeriod: 1})
			if err != nil {
				rt.Fatalf("generator produced a geometry the constructor rejects: %v", err)
			}
			usable := 0
			if size > 2 {
				usable = size - 2 // "excluding network and broadcast"
			}
			if _, tot, _ := a.Stats(); tot != uint64(usable) {
				if fail("unit-count", "Stats reports %d usable addresses, documented %d", tot, usable) {
					return
				}
			}
			at := func(i int) net.IP { return unitAt(base, 32, 32, big.NewInt(int64(i))) }
			for k, bi := range genProbeIdx(rt, big.NewInt(int64(size))) {
				i := int(bi.Int64())
				s := fmt.Sprintf("p%d", k)
				err := a.SetAllocation(s, at(i))
				if i == 0 || i == size-1 {
					if err == nil {
						if fail("excluded-unit", "a record for %s (the network/broadcast address) is accepted", at(i)) {
							return
						}
					}
					continue
				}
				if err != nil {
					if fail("unit-outside-range", "address %s (index %d of %d) of the pool is refused: %v", at(i), i, size, err) {
						return
					}
				}
				if got := a.Lookup(s); got == nil || !got.Equal(at(i)) {
					if fail("unit-misaligned", "the record for %s (index %d) reads back as %v", at(i), i, got) {
						return
					}
				}
				if got := a.LookupByIP(at(i)); got != s {
					if fail("unit-misaligned", "reverse lookup of %s (index %d) names %q, recorded for %s", at(i), i, got, s) {
						return
					}
				}
			}
			if beyond := at(size); beyond != nil {
				if err := a.SetAllocation("beyond", beyond); err == nil {
					if fail("unit-outside-range", "%s, the first address after the pool, is accepted", beyond) {
						return
					}
				}
			}
			if v, err := a.Allocate(ctx, "first"); err == nil {
				if e := rangeCheck(ipn, -1, v.String()); e != nil {
					if fail("unit-outside-range", "first allocation: %v", e) {
						return
					}
				}
				if v.Equal(at(0)) || v.Equal(at(size-1)) {
					if fail("excluded-unit", "first allocation is %s, the network/broadcast address", v) {
						return
					}
				}
			}
			cls = append(cls, sizeClass(usable), fmt.Sprintf("poolLen%%8=%d", pl%8))
		}
		cls = append(cls, "impl:"+impl+"-construction")
		vstat.Case(true, vstat.Hash("construct", desc), func() any { return map[string]any{"constructor": desc} }, cls...)
	})
}
