package c01

// Reference model shared by every pool implementation checked for C01.
//
// The model is updated only from OBSERVED return values of the implementation
// (values handed to subscribers) plus the documented expiry rule, never from
// the implementation's internal tables.

import (
	"fmt"
	"net"
	"os"
	"strings"
	"testing"

	"bngverif/internal/pools"
	"bngverif/internal/vstat"
)

func TestMain(m *testing.M) { vstat.Main(m, "C01") }

// subs is the small subscriber alphabet: re-asks and contention need collisions.
var subs = []string{"s0", "s1", "s2", "s3", "s4", "s5"}

type fataler = vstat.Fataler

type model struct {
	impl   string
	has    map[string]string // subscriber -> value held (canonical string)
	holder map[string]string // value -> subscriber
	freed  map[string]string // value -> subscriber that last gave it up (release/expiry/reload)
	ops    []string
	nt     bool // a value given up by one subscriber was later handed to another
	dead   bool // a listed known finding fired: state is undefined, stop the case
}

func newModel(impl string) *model {
	return &model{impl: impl, has: map[string]string{}, holder: map[string]string{}, freed: map[string]string{}}
}

func (m *model) logf(f string, a ...any) { m.ops = append(m.ops, fmt.Sprintf(f, a...)) }

func (m *model) fail(t fataler, kind, f string, a ...any) {
	t.Helper()
	sig := "C01/" + m.impl + "/" + kind
	if vstat.Fail(t, sig, "%s\nhistory: %s", fmt.Sprintf(f, a...), strings.Join(m.ops, "; ")) {
		m.dead = true
	}
}

// rangeCheck validates that val (canonical CIDR string or bare IP) lies inside pool with the unit length.
func rangeCheck(pool *net.IPNet, unit int, val string) error {
	var ip net.IP
	var ones = -1
	if strings.Contains(val, "/") {
		i, n, err := net.ParseCIDR(val)
		if err != nil {
			return fmt.Errorf("unparsable value %q", val)
		}
		ones, _ = n.Mask.Size()
		if !i.Equal(n.IP) {
			return fmt.Errorf("value %s not aligned to its own prefix length", val)
		}
		ip = i
	} else {
		ip = net.ParseIP(val)
		if ip == nil {
			return fmt.Errorf("unparsable value %q", val)
		}
	}
	if !pool.Contains(ip) {
		return fmt.Errorf("value %s outside pool %s", val, pool)
	}
	if ones >= 0 && unit >= 0 && ones != unit {
		return fmt.Errorf("value %s has prefix length /%d, pool allocates /%d", val, ones, unit)
	}
	if (ip.To4() == nil) != (pool.IP.To4() == nil) {
		return fmt.Errorf("value %s has wrong address family for pool %s", val, pool)
	}
	return nil
}

// onAlloc is called when the implementation handed val to sub.
// lookupOthers (may be nil) returns what the implementation itself reports for another subscriber.
func (m *model) onAlloc(t fataler, sub, val string, inRange func(string) error, lookupOthers func(string) string) {
	t.Helper()
	if m.dead {
		return
	}
	if val == "" || val == "<nil>" {
		m.fail(t, "empty-value", "alloc(%s) succeeded with an empty value", sub)
		return
	}
	if inRange != nil {
		if err := inRange(val); err != nil {
			m.fail(t, "out-of-range", "alloc(%s) -> %s: %v", sub, val, err)
			return
		}
	}
	if prev, ok := m.has[sub]; ok && prev != val {
		m.fail(t, "reask-changed", "alloc(%s) while holding %s returned %s", sub, prev, val)
		return
	}
	if other, ok := m.holder[val]; ok && other != sub {
		m.fail(t, "duplicate", "alloc(%s) -> %s which is held by %s", sub, val, other)
		return
	}
	if lookupOthers != nil {
		for _, o := range subs {
			if o != sub && lookupOthers(o) == val {
				m.fail(t, "duplicate-per-lookup", "alloc(%s) -> %s while the pool's own lookup says %s holds it", sub, val, o)
				return
			}
		}
	}
	if f, ok := m.freed[val]; ok && f != sub {
		m.nt = true
	}
	delete(m.freed, val)
	m.has[sub] = val
	m.holder[val] = sub
}

// onFree is called when sub's assignment ended (release, expiry, reload that dropped it).
func (m *model) onFree(sub string) {
	if v, ok := m.has[sub]; ok {
		delete(m.has, sub)
		delete(m.holder, v)
		m.freed[v] = sub
	}
}

func (m *model) onFreeValue(val string) {
	if s, ok := m.holder[val]; ok {
		m.onFree(s)
	}
}

// crossCheck: every assignment the model knows must be visible through the implementation's lookup,
// and the implementation's own view must not show one value under two subscribers.
func (m *model) crossCheck(t fataler, lookup func(string) string, reverse func(string) (string, bool)) {
	t.Helper()
	if m.dead {
		return
	}
	seen := map[string]string{}
	for _, s := range subs {
		got := lookup(s)
		if want, ok := m.has[s]; ok && got != want {
			m.fail(t, "lookup-mismatch", "lookup(%s)=%q but the subscriber was handed %q and never gave it up", s, got, want)
			return
		}
		if got != "" {
			if o, dup := seen[got]; dup {
				m.fail(t, "duplicate-per-lookup", "lookup reports %s for both %s and %s", got, o, s)
				return
			}
			seen[got] = s
		}
	}
	if reverse != nil {
		for v, s := range m.holder {
			if got, ok := reverse(v); ok && got != s {
				m.fail(t, "reverse-mismatch", "reverse lookup of %s = %q, model holder %q", v, got, s)
				return
			}
		}
		for v, s := range m.freed {
			if got, ok := reverse(v); ok && got != "" {
				m.fail(t, "reverse-stale", "reverse lookup of %s = %q although %s gave it up and nobody was handed it since", v, got, s)
				return
			}
		}
	}
}

// stateCheck compares a free-list pool's own tables (copied through the verif accessors) with the model: every
// subscriber the model says holds a value holds exactly that value in the pool's table; no value is allocated to two
// keys; no value is in the free list twice; no value is allocated (per the table or per the model) and free at once;
// a reverse index, where the pool keeps one, names the holder.
func (m *model) stateCheck(t fataler, sn pools.Snapshotter, inRange func(string) error) {
	t.Helper()
	if m.dead {
		return
	}
	st := sn.Snapshot()
	byVal := map[string]string{}
	for _, s := range subs { // fixed order: nothing here depends on map iteration
		got := st.Allocated[sn.Key(s)]
		if want, ok := m.has[s]; ok && got != want {
			m.fail(t, "lookup-mismatch", "the pool's table has %q for %s, the subscriber was handed %q and never gave it up", got, s, want)
			return
		}
		if got == "" {
			continue
		}
		if o, dup := byVal[got]; dup {
			m.fail(t, "duplicate-in-state", "the pool's allocated table has %s for both %s and %s", got, o, s)
			return
		}
		byVal[got] = s
		if inRange != nil {
			if err := inRange(got); err != nil {
				m.fail(t, "out-of-range", "allocated table: %s -> %s: %v", s, got, err)
				return
			}
		}
		if st.Reverse != nil {
			if r := st.Reverse[got]; r != sn.Key(s) {
				m.fail(t, "reverse-mismatch", "reverse index of %s = %q, the table says %s holds it", got, r, s)
				return
			}
		}
	}
	free := map[string]bool{}
	for _, v := range st.Available {
		if free[v] {
			m.fail(t, "free-list-duplicate", "%s is in the free list twice (two subscribers will be handed it)", v)
			return
		}
		free[v] = true
		if o, held := byVal[v]; held {
			m.fail(t, "held-and-free", "%s is allocated to %s and in the free list at once", v, o)
			return
		}
		if o, held := m.holder[v]; held {
			m.fail(t, "held-and-free", "%s was handed to %s, who never gave it up, and is in the free list", v, o)
			return
		}
	}
}

func (m *model) record(extraClasses ...string) {
	cls := append([]string{"impl:" + m.impl}, extraClasses...)
	if m.nt {
		cls = append(cls, "nt:reuse-by-other", "nt:reuse-by-other/"+m.impl)
	}
	ops := m.ops
	vstat.Case(m.nt, vstat.Hash(m.impl, strings.Join(ops, ";")), func() any {
		return map[string]any{"impl": m.impl, "ops": ops}
	}, cls...)
}

func replaying() bool { return os.Getenv("VERIF_REPLAYING") != "" }

func okerr(err error) string {
	if err == nil {
		return "ok"
	}
	return "err"
}
