package c01

// k PPPoE sessions (one IPCPStateMachine each) sharing one TINY pppoe.IPPool, with link flaps, judged by the address
// each session actually NEGOTIATES - the IP-Address option the machine Naks / Acks towards its peer - not by what the
// machine's accessors say. (pppoe_nexus_test.go's machine reads GetNegotiatedOptions().PeerIP right after Up; a session
// that keeps a stale address in its configuration shows nothing there until the peer asks.)
//
// Generated: k in 2..6 sessions; a pool of 1, 2, 3, 6 or 7 addresses, never more than k+1 (/31, /30 and /29 networks with
// the gateway inside or outside), so that a released address is recycled to another session within a few events (the
// free list is FIFO); events per session:
//   up         LCP opened: Open (first time) + Up, then the peer's Configure-Request with IP-Address 0.0.0.0; the
//              machine's reply is captured from its send callback: Configure-Nak(A) = it assigns A (the peer then
//              requests A and must be Acked), Configure-Reject = it has no address for the session
//   down       LCP went down: the session's address goes back to the pool
//   renegotiate (while up) the peer asks again with 0.0.0.0: the same address must be named
//   claim      (while up) the peer requests a specific address - another session's, its own, or a free one: the machine
//              must Nak with the session's own address (or Ack exactly that one)
//   ack        the peer acknowledges the machine's own Configure-Request (drives the automaton to Opened, so that
//              flaps and renegotiations also start from Opened)
// Oracle (reference model of model_test.go fed with the NEGOTIATED addresses): no two sessions that are up negotiate
// the same address; a session that asks again while up is told the same address; every negotiated address is inside
// the pool's network; after every event the pool's own table (verif accessor) records exactly the negotiated address
// for each up session, and no address is both allocated and free.

import (
	"fmt"
	"net"
	"testing"

	"github.com/codelaboratoryltd/bng/pkg/pppoe"
	"go.uber.org/zap"
	"pgregory.net/rapid"

	"bngverif/internal/pools"
	"bngverif/internal/vstat"
)

type ipcpEv struct {
	K int // 0,1 up  2 down  3 renegotiate  4 claim  5 ack
	S int
	T int
}

type ipcpSess struct {
	id   string
	sm   *pppoe.IPCPStateMachine
	sent [][]byte // IPCP packets the machine sent (code, id, length, options)
	up   bool
	open bool
	nid  uint8
}

// ipOpt extracts the IP-Address option (type 3) of an IPCP packet.
func ipOpt(pkt []byte) net.IP {
	if len(pkt) < 4 {
		return nil
	}
	for o := pkt[4:]; len(o) >= 2 && int(o[1]) >= 2 && int(o[1]) <= len(o); o = o[o[1]:] {
		if o[0] == 3 && o[1] == 6 {
			return net.IP(append([]byte(nil), o[2:6]...))
		}
	}
	return nil
}

// confReq sends the peer's Configure-Request with IP-Address = ip and returns the machine's reply to it.
func (s *ipcpSess) confReq(ip net.IP) (code byte, addr net.IP) {
	s.nid++
	ip4 := ip.To4()
	mark := len(s.sent)
	_ = s.sm.ReceivePacket([]byte{1, s.nid, 0, 10, 3, 6, ip4[0], ip4[1], ip4[2], ip4[3]})
	for _, p := range s.sent[mark:] {
		if len(p) >= 4 && p[1] == s.nid && (p[0] == 2 || p[0] == 3 || p[0] == 4) {
			return p[0], ipOpt(p)
		}
	}
	return 0, nil
}

// negotiate is what a PPP peer does: ask with 0.0.0.0, then request what it was told. Returns the address the
// machine assigns ("" = none: Configure-Reject).
func (s *ipcpSess) negotiate() (string, string) {
	code, a := s.confReq(net.IPv4zero)
	switch code {
	case 4:
		return "", ""
	case 3:
		if a == nil {
			return "", "Configure-Nak without an IP-Address option"
		}
		c2, a2 := s.confReq(a)
		if c2 != 2 || !a2.Equal(a) {
			return a.String(), fmt.Sprintf("offered %s by Configure-Nak, then answered the request for it with code %d (%v)", a, c2, a2)
		}
		return a.String(), ""
	case 2:
		return "", "acknowledged IP-Address 0.0.0.0"
	}
	return "", fmt.Sprintf("no reply to the Configure-Request (code %d)", code)
}

func ipcpNegRun(ft fataler, cidr, gw string, k int, evs []ipcpEv) (*model, []string) {
	pool, err := pppoe.NewIPPool(cidr, gw)
	if err != nil {
		ft.Fatalf("constructor: %v", err)
	}
	_, ipn, _ := net.ParseCIDR(cidr)
	inRange := func(v string) error { return pools.RangeCheck(ipn, -1, v) }
	m := newModel("pppoe-ipcp")
	_, free0 := pool.VerifState()
	m.logf("new IPPool(%s,gw=%s): %d addresses shared by %d sessions", cidr, gw, len(free0), k)
	ss := make([]*ipcpSess, k)
	for i := range ss {
		s := &ipcpSess{id: fmt.Sprintf("sess-%d", i)}
		cfg := pppoe.DefaultIPCPConfig()
		cfg.IPPool = pool
		s.sm = pppoe.NewIPCPStateMachine(cfg, s.id, func(proto uint16, data []byte) {
			if proto == pppoe.ProtocolIPCP {
				s.sent = append(s.sent, append([]byte(nil), data...))
			}
		}, zap.NewNop())
		ss[i] = s
	}
	defer func() {
		for _, s := range ss { // stop every restart timer
			if s.up {
				s.sm.Down()
			}
			s.sm.Close()
		}
	}()
	cls := map[string]bool{}
	name := func(i int) string { return subs[i] }
	for _, ev := range evs {
		if m.dead {
			break
		}
		i := ev.S % k
		// three of four events are steered to a session they apply to (up: one that is down; all others: one that is up)
		if ev.T%4 != 0 {
			var fit []int
			for j, x := range ss {
				if x.up == (ev.K > 1) {
					fit = append(fit, j)
				}
			}
			if len(fit) > 0 {
				i = fit[ev.S%len(fit)]
			}
		}
		s := ss[i]
		switch {
		case ev.K <= 1: // up
			if s.up {
				continue
			}
			if !s.open {
				s.sm.Open()
				s.open = true
			}
			s.sm.Up()
			s.up = true
			a, bad := s.negotiate()
			m.logf("up(%s)=%s", name(i), a)
			if bad != "" {
				m.fail(ft, "negotiation-inconsistent", "%s: %s", name(i), bad)
				break
			}
			if a == "" {
				cls["up-without-address"] = true
				break
			}
			if f, was := m.freed[a]; was {
				cls["recycled"] = true
				if f == name(i) {
					cls["recycled-to-same"] = true
				}
			}
			if _, flapped := cls["down:"+name(i)]; flapped {
				cls["up-after-down"] = true
			}
			m.onAlloc(ft, name(i), a, inRange, nil)
		case ev.K == 2: // down
			if !s.up {
				continue
			}
			s.sm.Down()
			s.up = false
			cls["down:"+name(i)] = true
			m.logf("down(%s)", name(i))
			m.onFree(name(i))
		case ev.K == 3: // renegotiate
			if !s.up {
				continue
			}
			a, bad := s.negotiate()
			m.logf("renegotiate(%s)=%s", name(i), a)
			cls["renegotiate"] = true
			if bad != "" {
				m.fail(ft, "negotiation-inconsistent", "%s: %s", name(i), bad)
				break
			}
			if a == "" {
				if held := m.has[name(i)]; held != "" {
					m.fail(ft, "reask-failed", "%s holds %s and is refused an address when it asks again", name(i), held)
				}
				break
			}
			m.onAlloc(ft, name(i), a, inRange, nil)
		case ev.K == 4: // claim a specific address
			if !s.up {
				continue
			}
			var want string
			switch o := name(ev.T % k); {
			case ev.T%3 == 0 && m.has[o] != "":
				want = m.has[o] // somebody's (possibly its own)
			case len(free0) > 0:
				want = free0[ev.T%len(free0)]
			default:
				continue
			}
			code, a := s.confReq(net.ParseIP(want))
			m.logf("claim(%s,%s)=%d,%v", name(i), want, code, a)
			cls["claim"] = true
			switch code {
			case 2: // acknowledged: the session now uses `want`
				m.onAlloc(ft, name(i), want, inRange, nil)
			case 3: // told to use a
				if a != nil {
					m.onAlloc(ft, name(i), a.String(), inRange, nil)
				}
			}
		default: // the peer acknowledges the machine's latest Configure-Request
			if !s.up {
				continue
			}
			for j := len(s.sent) - 1; j >= 0; j-- {
				if p := s.sent[j]; len(p) >= 4 && p[0] == 1 {
					ack := append([]byte(nil), p...)
					ack[0] = 2
					_ = s.sm.ReceivePacket(ack)
					if s.sm.IsOpened() {
						cls["opened"] = true
					}
					break
				}
			}
			continue
		}
		if m.dead {
			break
		}
		// the pool's own table: exactly the negotiated address for every session that is up
		alloc, free := pool.VerifState()
		inFree := map[string]bool{}
		for _, v := range free {
			inFree[v] = true
		}
		for j, x := range ss {
			want := m.has[name(j)]
			got := alloc[x.id]
			if want != "" && got != want {
				m.fail(ft, "negotiated-not-recorded", "%s negotiates %s with its peer, the pool records %q for the session", name(j), want, got)
				break
			}
			if want != "" && inFree[want] {
				m.fail(ft, "held-and-free", "%s negotiates %s with its peer and the address is in the pool's free list", name(j), want)
				break
			}
		}
	}
	out := []string{"geom:ipcp-negotiated", fmt.Sprintf("sessions:%d", k), fmt.Sprintf("pool:%d", len(free0))}
	for _, c := range []string{"recycled", "recycled-to-same", "up-after-down", "up-without-address", "renegotiate", "claim", "opened"} {
		if cls[c] {
			out = append(out, "ipcp:"+c)
		}
	}
	return m, out
}

func TestPropPPPoEIPCPNegotiated(t *testing.T) {
	vstat.Checks(2500, 50000)
	type geom struct {
		cidr, gw string
		n        int
	}
	geoms := []geom{{"10.7.7.6/31", "10.7.7.1", 1}, {"10.7.7.4/30", "10.7.7.5", 2}, {"10.7.7.4/30", "10.9.9.9", 3},
		{"10.7.7.8/29", "10.7.7.9", 6}, {"10.7.7.8/29", "10.9.9.9", 7}}
	rapid.Check(t, func(rt *rapid.T) {
		k := rapid.IntRange(2, 6).Draw(rt, "sessions")
		var ok []geom
		for _, g := range geoms {
			if g.n <= k+1 {
				ok = append(ok, g)
			}
		}
		g := ok[rapid.IntRange(0, len(ok)-1).Draw(rt, "pool")]
		evs := rapid.SliceOfN(rapid.Custom(func(t *rapid.T) ipcpEv {
			return ipcpEv{K: rapid.SampledFrom([]int{0, 1, 1, 2, 2, 2, 3, 4, 5}).Draw(t, "ev"), S: rapid.IntRange(0, 5).Draw(t, "sess"), T: rapid.IntRange(0, 11).Draw(t, "target")}
		}), 4, 40).Draw(rt, "events")
		m, cls := ipcpNegRun(rt, g.cidr, g.gw, k, evs)
		m.record(cls...)
	})
}
