// Package vstat records what a check actually generated: evaluations,
// distinct non-trivial cases (by 64-bit fingerprint), per-class counters,
// samples and known-finding hits.  The driver (/verif/check) merges the files
// written by every test process into evidence/<id>.json.
package vstat

import (
	"encoding/binary"
	"encoding/json"
	"flag"
	"fmt"
	"hash/fnv"
	"os"
	"sort"
	"strconv"
	"sync"
	"testing"
)

// Fataler is the subset of *testing.T / *rapid.T used to report violations.
type Fataler interface {
	Fatalf(format string, args ...any)
	Helper()
}

type finding struct {
	ID        string `json:"id"`
	Property  string `json:"property"`
	Signature string `json:"signature"`
	What      string `json:"what"`
}

type kfFile struct {
	Findings []finding `json:"findings"`
}

var (
	mu        sync.Mutex
	property  string
	tier      = "quick"
	evals     int64
	nontriv   int64
	fps       = map[uint64]struct{}{}
	classes   = map[string]int64{}
	first     []any
	reservoir []any
	resKeys   []uint64
	known     = map[string]string{} // signature -> id
	knownHits = map[string]int64{}
	notes     = map[string]any{}
	exhaust   *bool
)

const nFirst, nRes = 3, 3

// Main is called from TestMain of every property package.
func Main(m *testing.M, prop string) {
	property = prop
	if v := os.Getenv("VERIF_TIER"); v != "" {
		tier = v
	}
	if p := os.Getenv("VERIF_KF"); p != "" {
		if b, err := os.ReadFile(p); err == nil {
			var f kfFile
			if json.Unmarshal(b, &f) == nil {
				for _, x := range f.Findings {
					if x.Property == prop {
						known[x.Signature] = x.ID
					}
				}
			}
		}
	}
	flag.Parse()
	code := m.Run()
	Flush()
	os.Exit(code)
}

// Tier returns "quick" or "thorough".
func Tier() string { return tier }

// Thorough reports whether the thorough tier is running.
func Thorough() bool { return tier == "thorough" }

// Scale returns q in quick and th in thorough tier, multiplied by VERIF_SCALE (float) if set.
func Scale(q, th int) int {
	n := q
	if tier == "thorough" {
		n = th
	}
	if s := os.Getenv("VERIF_SCALE"); s != "" {
		if f, err := strconv.ParseFloat(s, 64); err == nil && f > 0 {
			n = int(float64(n) * f)
			if n < 1 {
				n = 1
			}
		}
	}
	return n
}

// Checks sets rapid's -rapid.checks flag for the next rapid.Check call unless
// a fail file is being replayed.
func Checks(q, th int) {
	if f := flag.Lookup("rapid.checks"); f != nil {
		_ = flag.Set("rapid.checks", strconv.Itoa(Scale(q, th)))
	}
}

// Seed returns the per-process seed the driver passed (for non-rapid enumerations that need one).
func Seed() uint64 {
	s, _ := strconv.ParseUint(os.Getenv("VERIF_PROC_SEED"), 10, 64)
	if s == 0 {
		s = 0x9e3779b97f4a7c15
	}
	return s
}

// Shard returns (index, count) of this process among the shards of one test.
func Shard() (int, int) {
	i, _ := strconv.Atoi(os.Getenv("VERIF_SHARD"))
	n, _ := strconv.Atoi(os.Getenv("VERIF_SHARDS"))
	if n <= 0 {
		n = 1
	}
	return i, n
}

// Hash fingerprints a normalised case.
func Hash(parts ...any) uint64 {
	h := fnv.New64a()
	for _, p := range parts {
		switch v := p.(type) {
		case string:
			h.Write([]byte(v))
		case []byte:
			h.Write(v)
		default:
			fmt.Fprint(h, v)
		}
		h.Write([]byte{0})
	}
	return h.Sum64()
}

// Case records one executed case that reached the oracle.
func Case(nontrivial bool, fp uint64, sample func() any, cls ...string) {
	mu.Lock()
	defer mu.Unlock()
	evals++
	for _, c := range cls {
		classes[c]++
	}
	if nontrivial {
		nontriv++
		fps[fp] = struct{}{}
	}
	if sample == nil {
		return
	}
	if len(first) < nFirst {
		first = append(first, sample())
		return
	}
	if !nontrivial {
		return
	}
	// deterministic reservoir: keep the nRes cases with the smallest mixed fingerprint
	k := fp*0x9e3779b97f4a7c15 ^ (fp >> 29)
	if len(reservoir) < nRes {
		reservoir = append(reservoir, sample())
		resKeys = append(resKeys, k)
		return
	}
	worst := 0
	for i := range resKeys {
		if resKeys[i] > resKeys[worst] {
			worst = i
		}
	}
	if k < resKeys[worst] {
		reservoir[worst] = sample()
		resKeys[worst] = k
	}
}

// Class bumps a counter without counting an evaluation.
func Class(c string, n int64) {
	mu.Lock()
	classes[c] += n
	mu.Unlock()
}

// Note attaches a free-form key to the stats (e.g. unpaired structs, exhaustive bounds).
func Note(k string, v any) {
	mu.Lock()
	notes[k] = v
	mu.Unlock()
}

// Exhaustive records that a finite space was enumerated completely by this process.
func Exhaustive(b bool) {
	mu.Lock()
	if exhaust == nil {
		exhaust = new(bool)
		*exhaust = b
	} else {
		*exhaust = *exhaust && b
	}
	mu.Unlock()
}

// Known reports whether sig is a listed known finding of this property and counts the hit.
func Known(sig string) bool {
	mu.Lock()
	defer mu.Unlock()
	if _, ok := known[sig]; ok {
		knownHits[sig]++
		return true
	}
	return false
}

// IsListed reports whether sig is listed, without counting a hit (for generators that steer around findings).
func IsListed(sig string) bool {
	mu.Lock()
	defer mu.Unlock()
	_, ok := known[sig]
	return ok
}

// Fail reports a violation with signature sig.  If sig is a listed known
// finding it returns true (the caller must abandon the case: state after a
// violation is undefined); otherwise it fails the test and does not return.
func Fail(t Fataler, sig string, format string, args ...any) bool {
	t.Helper()
	if Known(sig) {
		traceKnown(sig, format, args...)
		return true
	}
	t.Fatalf("VIOLATION sig=%s: %s", sig, fmt.Sprintf(format, args...))
	return false
}

// traceKnown keeps the first three occurrences of every listed signature in $VERIF_OUT/known_hits.txt (triage aid:
// what exactly still reaches a listed finding).
func traceKnown(sig, format string, args ...any) {
	dir := os.Getenv("VERIF_OUT")
	if dir == "" {
		return
	}
	mu.Lock()
	n := knownHits[sig]
	mu.Unlock()
	if n > 3 {
		return
	}
	f, err := os.OpenFile(dir+"/known_hits.txt", os.O_APPEND|os.O_CREATE|os.O_WRONLY, 0o644)
	if err != nil {
		return
	}
	defer f.Close()
	fmt.Fprintf(f, "=== %s (occurrence %d)\n%s\n", sig, n, fmt.Sprintf(format, args...))
}

// Flush writes the stats file and the fingerprint side file.
func Flush() {
	mu.Lock()
	defer mu.Unlock()
	p := os.Getenv("VERIF_STATS")
	if p == "" {
		return
	}
	out := map[string]any{
		"property":      property,
		"tier":          tier,
		"evaluations":   evals,
		"nontrivial":    nontriv,
		"distinct_here": len(fps),
		"classes":       classes,
		"samples":       append(append([]any{}, first...), reservoir...),
		"known_hits":    knownHits,
		"notes":         notes,
	}
	if exhaust != nil {
		out["exhaustive"] = *exhaust
	}
	b, _ := json.Marshal(out)
	_ = os.WriteFile(p, b, 0o644)
	keys := make([]uint64, 0, len(fps))
	for k := range fps {
		keys = append(keys, k)
	}
	sort.Slice(keys, func(i, j int) bool { return keys[i] < keys[j] })
	buf := make([]byte, 8*len(keys))
	for i, k := range keys {
		binary.LittleEndian.PutUint64(buf[8*i:], k)
	}
	_ = os.WriteFile(p+".fp", buf, 0o644)
}
