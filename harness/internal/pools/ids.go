package pools

// Subscriber-id alphabets.
//
// Subscriber ids are opaque strings to every pool implementation, but the strings real callers pass are not
// "s0".."s5": the DHCP paths use MAC strings and DUIDs (pkg/dhcpv6 passes the client DUID, pkg/pool and
// DistributedAllocator.AllocateWithMAC are keyed by what the DHCP server derives from the MAC), the access side
// uses relay circuit-ids ("olt-7/0/1/3", "eth 0/1/1:100"), cmd/bng uses "sub-<serial>", PPPoE uses session ids.
// Store-backed implementations embed the id in a key ("/allocation/<pool>/<id>") and in JSON records, so the
// id's alphabet is part of the input domain: separators inside ids, ids that are prefixes/suffixes of each
// other, ids that contain the pool id or the key prefix, non-ASCII and very long ids.
//
// An IDScheme is one such alphabet: N distinct ids.  Harnesses keep addressing subscribers by index / by their
// short harness name; the scheme supplies the string the implementation sees.

import (
	"fmt"
	"hash/fnv"
	"strings"
	"sync"

	"pgregory.net/rapid"
)

// IDScheme is a named alphabet of distinct subscriber ids.
type IDScheme struct {
	Name string
	IDs  []string
}

// SchemeNames lists the alphabets in the order used by GenIDScheme / SchemeFor.
var SchemeNames = []string{"token", "mac", "duid-hex", "circuit", "nested", "poolref", "unicode", "long"}

// SchemeNamesRaw adds "duid-raw": the DHCPv6 client DUID as pkg/dhcpv6 really passes it to
// PoolAllocator.AllocateWithOptions - string(clientIDOption.Data), i.e. raw bytes, usually not valid UTF-8.
// Only for implementations that pkg/dhcpv6 feeds (PoolAllocator and what it wraps: IPAllocator, AllocationStore).
// (Order matters for GenIDSchemeRaw only: 16 coin-flip values over 9 names give the first seven 1/8 each, the last two 1/16.)
var SchemeNamesRaw = []string{"circuit", "nested", "poolref", "duid-raw", "unicode", "long", "duid-hex", "mac", "token"}

// HasSlash reports whether the id contains the key separator.
func HasSlash(id string) bool { return strings.Contains(id, "/") }

// BuildIDs returns n distinct ids of the named scheme. poolID is the pool the ids will be used in (the
// "poolref" scheme builds ids around it); salt varies the ids' contents without changing their shape.
func BuildIDs(name string, n int, poolID string, salt uint64) []string {
	a, b, c := int(salt%7)+1, int(salt/7%10), int(salt/70%48)
	var pool []string
	switch name {
	case "mac": // net.HardwareAddr.String(): lower-case, colon separated
		for i := 0; i < n; i++ {
			pool = append(pool, fmt.Sprintf("02:00:%02x:%02x:%02x:%02x", byte(salt), byte(salt>>8), byte(salt>>16), i+1))
		}
	case "duid-hex": // DUID-LL / DUID-LLT of the same hardware addresses, hex encoded
		for i := 0; i < n; i++ {
			mac := fmt.Sprintf("0200%02x%02x%02x%02x", byte(salt), byte(salt>>8), byte(salt>>16), i/2+1)
			if i%2 == 0 {
				pool = append(pool, "00030001"+mac)
			} else {
				pool = append(pool, "000100012c3d4e5f"+mac)
			}
		}
	case "duid-raw": // DUID-LL (type 3, hw type 1) + MAC as raw bytes; the MACs differ in one byte >= 0x80, and contain '/' and 0x00
		for i := 0; i < n; i++ {
			pool = append(pool, string([]byte{0x00, 0x03, 0x00, 0x01, 0x02, 0x00, byte(salt), 0x2f, byte(0x80 + i), 0x01}))
		}
	case "circuit": // relay circuit-id / remote-id text forms: "/", ":", ".", "|" and spaces inside the id
		forms := []func(i int) string{
			func(i int) string { return fmt.Sprintf("olt-%d/%d/%d/%d", a, b, c, i) },
			func(i int) string { return fmt.Sprintf("eth %d/%d/%d:%d", a%4, b, c, 100+i) },
			func(i int) string { return fmt.Sprintf("OLT%d xpon 0/%d/0/%d:1.1.%d", a, b, i, 32+i) },
			func(i int) string { return fmt.Sprintf("ge-0/0/%d.%d:%d", b, 100+i, 200+c) },
			func(i int) string { return fmt.Sprintf("Bundle-Ether%d.%d|olt-%d/%d", a, i, a, b) },
			func(i int) string { return fmt.Sprintf("olt-%d/%d/%d/%d:%d", a, b, c, i, 7) },
		}
		for i := 0; i < n; i++ {
			pool = append(pool, forms[i%len(forms)](i))
		}
	case "nested": // ids that are prefixes / suffixes / last path elements of each other
		base := fmt.Sprintf("olt-%d", a)
		pool = []string{base, base + "/0", base + "/0/1", base + "/0/1/3", "3", "0/1/3", base + "/1", "1", base + "/0/1/3/3", "0"}
	case "poolref": // ids that contain the pool id or the store key prefix itself
		pool = []string{poolID, poolID + "/s0", "/allocation/" + poolID + "/s0", "allocation/" + poolID, poolID + "0", "s0",
			"/allocation/" + poolID + "/", "/" + poolID, poolID + "/", "allocation"}
	case "unicode": // valid UTF-8 beyond ASCII; NFC and NFD spellings of one visible string are distinct ids
		pool = []string{"子网-用户" + fmt.Sprint(a), "abonné-é", "abonné-é", "Ünïcode/ß" + fmt.Sprint(b), "user\U0001F642" + fmt.Sprint(c),
			"пользователь " + fmt.Sprint(a), "ᚠᚢ/ᚦ:1", "ｆｕｌｌｗｉｄｔｈ", "子网-用户", " line "}
	case "long": // 200-byte ids with a long common prefix; one is a proper prefix of another
		stem := fmt.Sprintf("L%d-", salt%1000) + strings.Repeat("x", 200)
		stem = stem[:190]
		for i := 0; i < n; i++ {
			pool = append(pool, fmt.Sprintf("%s%09d%d", stem, 0, i%10)[:200])
		}
		if n >= 3 {
			pool[1] = pool[0][:199] + "Y"
			pool[2] = pool[0] + "/1"
		}
	default: // "token": the short names the harnesses always used
		for i := 0; i < n; i++ {
			pool = append(pool, fmt.Sprintf("s%d", i))
		}
	}
	if len(pool) < n {
		panic(fmt.Sprintf("id scheme %q has only %d ids, %d wanted", name, len(pool), n))
	}
	pool = pool[:n]
	seen := map[string]bool{}
	for _, id := range pool {
		if seen[id] || id == "" {
			panic(fmt.Sprintf("id scheme %q: duplicate or empty id %q", name, id))
		}
		seen[id] = true
	}
	return pool
}

// GenIDScheme draws one alphabet of n ids (n <= 10), every scheme with the same probability (drawn from coin
// flips: rapid's SampledFrom favours the first entries).
func GenIDScheme(n int, poolID string) *rapid.Generator[IDScheme] { return genIDScheme(n, poolID, SchemeNames, 3) }

// GenIDSchemeRaw is GenIDScheme plus the raw-DUID alphabet (1 case in 8).
func GenIDSchemeRaw(n int, poolID string) *rapid.Generator[IDScheme] {
	return genIDScheme(n, poolID, SchemeNamesRaw, 4)
}

func genIDScheme(n int, poolID string, names []string, bits int) *rapid.Generator[IDScheme] {
	return rapid.Custom(func(t *rapid.T) IDScheme {
		v := 0
		for i := 0; i < bits; i++ {
			v <<= 1
			if rapid.Bool().Draw(t, "idScheme") {
				v |= 1
			}
		}
		name := names[v%len(names)]
		salt := uint64(rapid.IntRange(0, 1<<24-1).Draw(t, "idSalt"))
		return IDScheme{Name: name, IDs: BuildIDs(name, n, poolID, salt)}
	})
}

// SchemeFor derives an alphabet from a hash of the generated configuration (for callers that build a pool from
// generated parameters but have no rapid.T at hand): a pure function of the case.
func SchemeFor(h uint64, n int, poolID string, raw bool) IDScheme {
	names := SchemeNames
	if raw {
		names = SchemeNamesRaw
	}
	name := names[(h>>8)%uint64(len(names))]
	return IDScheme{Name: name, IDs: BuildIDs(name, n, poolID, h>>16)}
}

// Translator maps the harness's short subscriber names ("s3", "f17", "g205") to the ids of a scheme and back.
// "s<k>" with k inside the alphabet is the alphabet's k-th id; every other name keeps the alphabet's flavour and
// is made unique by appending the harness name as a further path element.  The mapping is a pure function of
// (scheme, name), so it does not depend on the order of calls (adapters are driven concurrently by C01).
type Translator struct {
	scheme IDScheme
	mu     sync.Mutex
	back   map[string]string
}

// NewTranslator creates a translator; a "token" scheme (or an empty one) is the identity.
func NewTranslator(s IDScheme) *Translator {
	return &Translator{scheme: s, back: map[string]string{}}
}

// Identity reports whether the translator changes nothing.
func (t *Translator) Identity() bool {
	return t == nil || t.scheme.Name == "" || t.scheme.Name == "token" || len(t.scheme.IDs) == 0
}

// Scheme returns the alphabet's name ("token" for the identity).
func (t *Translator) Scheme() string {
	if t.Identity() {
		return "token"
	}
	return t.scheme.Name
}

// ID returns the implementation-side id of a harness subscriber name.
func (t *Translator) ID(name string) string {
	if t.Identity() || name == "" {
		return name
	}
	kind, k := SubNum(name)
	var id string
	if kind == 's' && k >= 0 && k < len(t.scheme.IDs) && name == fmt.Sprintf("s%d", k) {
		id = t.scheme.IDs[k]
	} else {
		id = t.scheme.IDs[(k%len(t.scheme.IDs)+len(t.scheme.IDs))%len(t.scheme.IDs)] + "/" + name
	}
	t.mu.Lock()
	t.back[id] = name
	t.mu.Unlock()
	return id
}

// Name returns the harness name for an id the implementation reported ("" stays "", unknown ids are returned as is).
func (t *Translator) Name(id string) string {
	if t.Identity() || id == "" {
		return id
	}
	t.mu.Lock()
	defer t.mu.Unlock()
	if n, ok := t.back[id]; ok {
		return n
	}
	return id
}

// configHash is the hash of a generated pool configuration that SchemeFor consumes.
func configHash(parts ...any) uint64 {
	h := fnv.New64a()
	for _, p := range parts {
		fmt.Fprint(h, p)
		h.Write([]byte{0})
	}
	return h.Sum64()
}

// translatorFor chooses the id alphabet of a store-backed factory from its generated configuration; fixed
// regression cases (class "replay") keep the historical short names.
func translatorFor(class, poolID string, raw bool, parts ...any) *Translator {
	if class == "replay" || class == "exh" {
		return NewTranslator(IDScheme{Name: "token"})
	}
	return NewTranslator(SchemeFor(configHash(parts...), 6, poolID, raw))
}
