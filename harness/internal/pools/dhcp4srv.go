package pools

// dhcp.Pool driven the way pkg/dhcp/server.go drives it: every mutating method the server calls, each under the
// precondition the calling handler establishes first. The driver keeps what the server's lease table would hold
// (which client has an acknowledged lease, and on which address) and who was handed what, because the preconditions
// are stated in terms of them:
//
//	DISCOVER  (handleDiscover)   Allocate(mac)            any client without an unexpired lease
//	REQUEST   (handleRequest)    Claim(mac, ip)           client has NO lease; ip inside the pool's network (pool.Contains):
//	                                                      its own offer, somebody else's address, a free one, or one
//	                                                      the pool never hands out (network/broadcast/gateway/reserved)
//	REQUEST via circuit-id       Reassign(oldMAC, newMAC) oldMAC has a lease, newMAC has none (it may hold an offer)
//	RELEASE / lease expiry       Release(lease.IP)        client has a lease
//	DECLINE                      Decline(mac, ip)         client has a lease on ip, or (no lease) AllocatedTo(mac, ip)
//	offer given up               ReleaseClient(mac)       client has no lease (only on trees that have this method)
//
// The generator and the interpretation are the ones of harness/c01/dhcp4_test.go (TestPropDHCP4Server); they live
// here so that every property that needs the server's call discipline (C01 uniqueness, C05 leak/miscount) judges
// the same histories. The driver only executes and keeps the "who was handed what" record (from return values; for
// the methods that return nothing, the effect their doc comment states); everything property-specific happens in the
// D4Observer.

import (
	"encoding/binary"
	"fmt"
	"net"
	"time"

	"github.com/codelaboratoryltd/bng/pkg/dhcp"
	"pgregory.net/rapid"
)

// D4Kind is one kind of DHCPv4 server event that mutates the pool.
type D4Kind int

const (
	D4Discover D4Kind = iota
	D4Request
	D4Reassign
	D4Release
	D4Decline
	D4GiveUpOffer
)

var d4Names = [...]string{"discover", "request", "reassign", "release", "decline", "giveUpOffer"}

func (k D4Kind) String() string { return d4Names[k] }

// D4Op is one generated step.
type D4Op struct {
	K D4Kind
	S int // subject client
	T int // second client (reassign target) / target selector
	C int // target class for request/decline
	V int // index selector
}

func (o D4Op) String() string { return fmt.Sprintf("%s(%d,%d,%d,%d)", o.K, o.S, o.T, o.C, o.V) }

// GenD4Ops draws a history of server events over nSubs clients.
func GenD4Ops(nSubs, minLen, maxLen int) *rapid.Generator[[]D4Op] {
	bag := []D4Kind{D4Discover, D4Discover, D4Discover, D4Discover, D4Discover, D4Request, D4Request, D4Request, D4Request, D4Request, D4Request,
		D4Reassign, D4Reassign, D4Reassign, D4Release, D4Release, D4Decline, D4Decline, D4Decline, D4GiveUpOffer, D4GiveUpOffer}
	one := rapid.Custom(func(t *rapid.T) D4Op {
		return D4Op{
			K: rapid.SampledFrom(bag).Draw(t, "kind"),
			S: rapid.IntRange(0, nSubs-1).Draw(t, "client"),
			T: rapid.IntRange(0, nSubs-1).Draw(t, "other"),
			C: rapid.IntRange(0, 9).Draw(t, "targetClass"),
			V: rapid.IntRange(0, 63).Draw(t, "idx"),
		}
	})
	return rapid.SliceOfN(one, minLen, maxLen)
}

// GenDHCP4Server draws dhcp.Pool configurations for server-discipline histories: like GenDHCP4, but weighted
// towards pools of 3..14 usable addresses (/29, /28), where six clients reach exhaustion through offers, leases
// and declined addresses and still have room for takeovers; /30 (1-2 addresses), larger pools and the fully
// reserved pool (5 %) remain.
func GenDHCP4Server() *rapid.Generator[DHCP4Cfg] {
	return rapid.Custom(func(t *rapid.T) DHCP4Cfg {
		pl := rapid.SampledFrom([]int{30, 30, 29, 29, 29, 29, 29, 28, 28, 28, 28, 27, 26, 24}).Draw(t, "poolLen")
		n := genV4Base(t, rapid.SampledFrom([]int{10, 100, 172, 192}).Draw(t, "b0"), pl)
		hosts := (1 << uint(32-pl)) - 2
		var gw net.IP
		gclass := rapid.SampledFrom([]string{"first", "first", "last", "mid", "outside"}).Draw(t, "gwClass")
		switch gclass {
		case "first":
			gw = addrAt(n, -1, 1)
		case "last":
			gw = addrAt(n, -1, hosts)
		case "mid":
			gw = addrAt(n, -1, rapid.IntRange(1, hosts).Draw(t, "gwIdx"))
		default:
			gw = net.IPv4(198, 51, 100, 1).To4()
		}
		size := "large"
		if pl >= 28 {
			size = "small"
		}
		if pl >= 30 {
			size = "micro"
		}
		v := V4Net{n.String(), gw.String(), fmt.Sprintf("d4srv-%s/gw-%s", size, gclass)}
		if rapid.IntRange(0, 19).Draw(t, "overReserve") == 0 {
			return DHCP4Cfg{v, hosts, 1}
		}
		rs := rapid.IntRange(0, min(3, hosts-1)).Draw(t, "reservedStart")
		re := rapid.IntRange(0, min(3, hosts-1-rs)).Draw(t, "reservedEnd")
		return DHCP4Cfg{v, rs, re}
	})
}

// D4Observer is the property-specific side of a server-discipline history.
type D4Observer interface {
	// Handed: the pool handed val to sub (Allocate's return value, a granted Claim, Reassign's documented effect).
	Handed(sub, val, op string)
	// Freed: sub's binding ended and (per the method's documentation) its value went back into circulation.
	Freed(sub, op string)
	// Quarantined: sub's binding on val ended by DECLINE: val is taken out of service, not returned to the free list.
	Quarantined(sub, val, op string)
	// Refused: Allocate failed for sub.
	Refused(sub string, err error, op string)
	// Inconsistent: an answer of the pool contradicts what it handed out; kind is a signature component.
	Inconsistent(kind, op, format string, args ...any)
	// Logf appends to the history log.
	Logf(format string, args ...any)
	// Step runs the per-step oracle after op was executed; false stops the history.
	Step(op string) bool
}

// D4Server is one dhcp.Pool together with the server-side bookkeeping its call preconditions refer to.
type D4Server struct {
	P     *dhcp.Pool
	Cfg   DHCP4Cfg
	Net   *net.IPNet
	Subs  []string
	Has   map[string]string // client -> address it was handed and has not given up (offer or lease)
	Lease map[string]string // the server's lease table: client -> acknowledged address
	Cls   map[string]bool   // shapes that occurred (class labels)
}

// NewD4Pool builds the dhcp.Pool of a generated configuration.
func NewD4Pool(cfg DHCP4Cfg) (*dhcp.Pool, error) {
	return dhcp.NewPool(dhcp.PoolConfig{ID: 1, Name: "p", Network: cfg.CIDR, Gateway: cfg.Gateway, LeaseTime: time.Hour,
		ReservedStart: cfg.ReservedStart, ReservedEnd: cfg.ReservedEnd})
}

// NewD4Server wraps p (built from cfg) for a history over the client alphabet subs.
func NewD4Server(p *dhcp.Pool, cfg DHCP4Cfg, subs []string) *D4Server {
	return &D4Server{P: p, Cfg: cfg, Net: mustCIDR(cfg.CIDR), Subs: subs, Has: map[string]string{}, Lease: map[string]string{}, Cls: map[string]bool{}}
}

func (d *D4Server) handed(o D4Observer, s, v, op string) {
	o.Handed(s, v, op)
	d.Has[s] = v
}

func (d *D4Server) freed(o D4Observer, s, op string) {
	o.Freed(s, op)
	delete(d.Has, s)
}

// Run executes ops; the observer judges after every executed step.
func (d *D4Server) Run(ops []D4Op, o D4Observer) {
	p, cfg, ipn := d.P, d.Cfg, d.Net
	ones, _ := ipn.Mask.Size()
	size := 1 << uint(32-ones)
	addrAt := func(i int) string {
		ip := make(net.IP, 4)
		binary.BigEndian.PutUint32(ip, binary.BigEndian.Uint32(ipn.IP.To4())+uint32(i))
		return ip.String()
	}
	giveUp, hasGiveUp := any(p).(interface {
		ReleaseClient(net.HardwareAddr) net.IP
	})
	cls, has, lease, subs := d.Cls, d.Has, d.Lease, d.Subs
	// pick returns the idx-th client (in alphabet order) satisfying ok, or "" if none does
	pick := func(idx int, ok func(s string) bool) string {
		var c []string
		for _, s := range subs {
			if ok(s) {
				c = append(c, s)
			}
		}
		if len(c) == 0 {
			return ""
		}
		return c[idx%len(c)]
	}
	noLease := func(s string) bool { return lease[s] == "" }
	hasLease := func(s string) bool { return lease[s] != "" }
	for _, op := range ops {
		s := subs[op.S%len(subs)]
		name := op.K.String()
		switch op.K {
		case D4Discover:
			ip, err := p.Allocate(MacOf(s))
			o.Logf("discover(%s)=%v,%s", s, ip, okErr(err))
			if err != nil {
				cls["discover-refused"] = true
				o.Refused(s, err, name)
				break
			}
			if has[s] != "" {
				cls["reask"] = true
			}
			cls["discover"] = true
			d.handed(o, s, ip.String(), name)
		case D4Request:
			// handleRequest reaches Claim only for a client without a lease
			offered := func(x string) bool { return noLease(x) && has[x] != "" }
			var target, tclass string
			switch {
			case op.C <= 4: // the address it was offered (the ordinary DISCOVER/OFFER/REQUEST exchange)
				if s = pick(op.S, offered); s != "" {
					target, tclass = has[s], "own-offer"
				}
			case op.C <= 6: // an address somebody else holds (offered or leased)
				if s = pick(op.S, offered); s == "" || op.V%3 == 0 {
					s = pick(op.S, noLease)
				}
				if x := pick(op.T, func(x string) bool { return x != s && has[x] != "" }); s != "" && x != "" {
					target, tclass = has[x], "foreign"
				}
			case op.C == 7: // network / broadcast / gateway: inside the network, never allocatable
				if s = pick(op.S, noLease); s != "" {
					target, tclass = []string{addrAt(0), addrAt(size - 1), cfg.Gateway}[op.V%3], "unallocatable"
					if !ipn.Contains(net.ParseIP(target)) {
						continue // gateway outside the network: handleRequest NAKs "IP not in pool" before Claim
					}
				}
			}
			if tclass == "" { // any host address by index: free, reserved, declined or held
				if s = pick(op.S, noLease); s == "" {
					continue
				}
				target, tclass = addrAt(1+op.V%max(1, size-2)), "by-index"
			}
			holdsOther := has[s] != "" && has[s] != target
			ok := p.Claim(MacOf(s), net.ParseIP(target))
			o.Logf("request(%s,%s)=%v", s, target, ok)
			cls["claim"] = true
			cls["claim:"+tclass] = true
			if !ok {
				cls["claim-refused"] = true
				if holdsOther {
					cls["claim-refused-while-holding"] = true
				}
				if has[s] == target {
					o.Inconsistent("reask-failed", name, "Claim(%s,%s) refused although the client was handed that address and never gave it up", s, target)
				}
				break // NAK: nothing changes
			}
			cls["claim-granted"] = true
			if holdsOther {
				d.freed(o, s, name) // the pool moved the client (documented behaviour is to refuse; either is consistent)
			}
			d.handed(o, s, target, name)
			lease[s] = target
		case D4Reassign:
			// replacement CPE: the circuit's lease belongs to oldMAC, the REQUEST comes from a MAC without a lease
			old := pick(op.S, hasLease)
			if old == "" {
				continue
			}
			nw := ""
			if op.V%2 == 0 { // the replacement CPE already DISCOVERed: it holds an offer of its own
				nw = pick(op.T, func(x string) bool { return x != old && noLease(x) && has[x] != "" })
			}
			if nw == "" {
				nw = pick(op.T, func(x string) bool { return x != old && noLease(x) })
			}
			if nw == "" {
				continue
			}
			ip := lease[old]
			if has[nw] == "" && op.V%2 == 0 {
				// the replacement CPE first DISCOVERs without relay information and is offered an address of its own
				if off, err := p.Allocate(MacOf(nw)); err == nil {
					o.Logf("discover(%s)=%v,ok", nw, off)
					d.handed(o, nw, off.String(), "discover")
					if !o.Step("discover") {
						return
					}
				} else {
					o.Logf("discover(%s)=<nil>,err", nw)
					o.Refused(nw, err, "discover")
					if !o.Step("discover") {
						return
					}
				}
			}
			prev := has[nw]
			p.Reassign(MacOf(old), MacOf(nw))
			o.Logf("reassign(%s->%s) [%s]", old, nw, ip)
			cls["reassign"] = true
			if prev != "" {
				cls["reassign-new-had-offer"] = true
			}
			delete(lease, old)
			d.freed(o, old, name)
			if prev != "" && prev != ip {
				d.freed(o, nw, name) // "An address newMAC held before goes back to the pool"
			}
			d.handed(o, nw, ip, name)
			lease[nw] = ip
		case D4Release:
			// RELEASE from the client or expiry of its lease: the server releases lease.IP
			if s = pick(op.S, hasLease); s == "" {
				continue
			}
			p.Release(net.ParseIP(lease[s]))
			o.Logf("release(%s) [%s]", s, lease[s])
			cls["release"] = true
			delete(lease, s)
			d.freed(o, s, name)
		case D4Decline:
			if op.C%2 == 0 {
				// DECLINE of the leased address
				if s = pick(op.S, hasLease); s == "" {
					continue
				}
				v := lease[s]
				p.Decline(MacOf(s), net.ParseIP(v))
				o.Logf("decline(%s) [lease %s]", s, v)
				cls["decline"], cls["decline:lease"] = true, true
				delete(lease, s)
				o.Quarantined(s, v, name)
				delete(has, s)
				break
			}
			// DECLINE from a client without a lease: acted on only if the pool says the address is its offer
			if s = pick(op.S, func(x string) bool { return noLease(x) && (op.C%4 == 3 || has[x] != "") }); s == "" {
				continue
			}
			target := has[s]
			if op.C%4 == 3 || target == "" {
				target = addrAt(1 + op.V%max(1, size-2)) // an address of the client's choosing
			}
			if !p.AllocatedTo(MacOf(s), net.ParseIP(target)) {
				o.Logf("decline(%s,%s) ignored", s, target)
				cls["decline:ignored"] = true
				if has[s] == target {
					o.Inconsistent("lookup-mismatch", name, "AllocatedTo(%s,%s)=false although the client was handed it", s, target)
				}
				break
			}
			if has[s] != target {
				o.Inconsistent("duplicate-per-lookup", name, "AllocatedTo(%s,%s)=true, the client was never handed that address (it holds %q)", s, target, has[s])
				break
			}
			p.Decline(MacOf(s), net.ParseIP(target))
			o.Logf("decline(%s) [offer %s]", s, target)
			cls["decline"], cls["decline:offer"] = true, true
			o.Quarantined(s, target, name)
			delete(has, s)
		case D4GiveUpOffer:
			if !hasGiveUp {
				continue
			}
			if s = pick(op.S, noLease); s == "" {
				continue
			}
			ip := giveUp.ReleaseClient(MacOf(s))
			o.Logf("giveUpOffer(%s)=%v", s, ip)
			if ip != nil {
				cls["give-up-offer"] = true
				if held := has[s]; held != ip.String() {
					o.Inconsistent("lookup-mismatch", name, "ReleaseClient(%s) returned %s, the client was handed %q", s, ip, held)
					break
				}
			} else if has[s] != "" {
				o.Inconsistent("lookup-mismatch", name, "ReleaseClient(%s) returned nothing, the client was handed %s and never gave it up", s, has[s])
				break
			}
			d.freed(o, s, name)
		}
		if !o.Step(name) {
			return
		}
	}
}

// D4ClassNames lists the shape labels a D4Server history can carry, in reporting order.
var D4ClassNames = []string{"discover", "discover-refused", "reask", "claim", "claim:own-offer", "claim:foreign", "claim:unallocatable", "claim:by-index",
	"claim-granted", "claim-refused", "claim-refused-while-holding", "reassign", "reassign-new-had-offer", "release",
	"decline", "decline:lease", "decline:offer", "decline:ignored", "give-up-offer"}

// Classes returns the "d4:<shape>" labels of the history run so far.
func (d *D4Server) Classes() []string {
	var out []string
	for _, c := range D4ClassNames {
		if d.Cls[c] {
			out = append(out, "d4:"+c)
		}
	}
	return out
}

func okErr(err error) string {
	if err == nil {
		return "ok"
	}
	return "err"
}
