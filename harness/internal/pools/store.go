package pools

import (
	"context"
	"errors"
	"fmt"
	"net"
	"sort"
	"strings"
	"sync"

	"github.com/codelaboratoryltd/bng/pkg/allocator"
)

// ErrInjected is the error returned by a store call selected for failure.
var ErrInjected = errors.New("injected store failure")

var errKeyNotFound = errors.New("key not found")

type storeEvent struct {
	key     string
	value   []byte
	deleted bool
}

// MemStore is the harness's implementation of allocator.Store: deterministic
// (enumeration order is a caller-supplied permutation), with a call counter,
// single-fault injection and explicit delivery of watch events.
type MemStore struct {
	mu       sync.Mutex
	data     map[string][]byte
	watchers []struct {
		prefix string
		cb     func(key string, value []byte, deleted bool)
	}
	calls      int
	failAt     int
	lastFailed string
	perm       uint64
	pending    []storeEvent // local writes not yet echoed to watchers
	parks      parkSet      // writes selected to be held back (Park)
	tr         *Translator  // harness subscriber name -> id as it appears in the keys (nil: identity)
	honourCtx  bool         // calls with a done context fail with the context's error (as a networked store does)
}

// HonourContext makes the store refuse calls whose context is done (and abandon a held-back write when its context
// ends) with the context's error, nothing applied - what a store behind a network does. Off by default.
func (m *MemStore) HonourContext(on bool) { m.mu.Lock(); m.honourCtx = on; m.mu.Unlock() }

func (m *MemStore) ctxErrLocked(ctx context.Context, what string) error {
	if m.honourCtx && ctx != nil && ctx.Err() != nil {
		m.lastFailed = what + "(context)"
		return fmt.Errorf("store %s: %w", what, ctx.Err())
	}
	return nil
}

// NewMemStore creates an empty store; call number failAt (1-based, 0 = never) fails.
func NewMemStore(failAt int) *MemStore {
	return &MemStore{data: map[string][]byte{}, failAt: failAt}
}

func (m *MemStore) hit(what string) error {
	m.calls++
	if m.failAt > 0 && m.calls == m.failAt {
		m.lastFailed = what
		return fmt.Errorf("%w (%s, call %d)", ErrInjected, what, m.calls)
	}
	return nil
}

// Get implements allocator.Store.
func (m *MemStore) Get(ctx context.Context, key string) ([]byte, error) {
	m.mu.Lock()
	defer m.mu.Unlock()
	if err := m.hit("get"); err != nil {
		return nil, err
	}
	if err := m.ctxErrLocked(ctx, "get"); err != nil {
		return nil, err
	}
	v, ok := m.data[key]
	if !ok {
		return nil, errKeyNotFound
	}
	return append([]byte(nil), v...), nil
}

// Put implements allocator.Store.
func (m *MemStore) Put(ctx context.Context, key string, value []byte) error {
	m.mu.Lock()
	defer m.mu.Unlock()
	if err := m.hit("put"); err != nil {
		return err
	}
	if err := m.ctxErrLocked(ctx, "put"); err != nil {
		return err
	}
	if err := m.parkLocked(ctx, "put", key); err != nil {
		return err
	}
	m.data[key] = append([]byte(nil), value...)
	m.pending = append(m.pending, storeEvent{key, append([]byte(nil), value...), false})
	return nil
}

// Delete implements allocator.Store.
func (m *MemStore) Delete(ctx context.Context, key string) error {
	m.mu.Lock()
	defer m.mu.Unlock()
	if err := m.hit("delete"); err != nil {
		return err
	}
	if err := m.ctxErrLocked(ctx, "delete"); err != nil {
		return err
	}
	if err := m.parkLocked(ctx, "delete", key); err != nil {
		return err
	}
	delete(m.data, key)
	m.pending = append(m.pending, storeEvent{key, nil, true})
	return nil
}

// Query implements allocator.Store; result order is the permutation selected by SetPerm.
func (m *MemStore) Query(ctx context.Context, prefix string) ([]allocator.KeyValue, error) {
	m.mu.Lock()
	defer m.mu.Unlock()
	if err := m.hit("query"); err != nil {
		return nil, err
	}
	if err := m.ctxErrLocked(ctx, "query"); err != nil {
		return nil, err
	}
	keys := make([]string, 0, len(m.data))
	for k := range m.data {
		if strings.HasPrefix(k, prefix) {
			keys = append(keys, k)
		}
	}
	sort.Strings(keys)
	// Fisher-Yates driven by the generated perm value (xorshift), so order is a function of the case.
	x := m.perm | 1
	for i := len(keys) - 1; i > 0; i-- {
		x ^= x << 13
		x ^= x >> 7
		x ^= x << 17
		j := int(x % uint64(i+1))
		keys[i], keys[j] = keys[j], keys[i]
	}
	out := make([]allocator.KeyValue, 0, len(keys))
	for _, k := range keys {
		out = append(out, allocator.KeyValue{Key: k, Value: append([]byte(nil), m.data[k]...)})
	}
	return out, nil
}

// Watch implements allocator.Store; events are delivered only by Deliver/Flush.
func (m *MemStore) Watch(prefix string, cb func(key string, value []byte, deleted bool)) {
	m.mu.Lock()
	defer m.mu.Unlock()
	m.watchers = append(m.watchers, struct {
		prefix string
		cb     func(key string, value []byte, deleted bool)
	}{prefix, cb})
}

// parkLocked holds the write back if it was selected by Park: the store's lock is dropped while the write waits at
// its gate (the write is in flight, nothing has been applied), and the write is applied - or refused - when the
// gate opens. Called and returns with m.mu held.
func (m *MemStore) parkLocked(ctx context.Context, op, key string) error {
	// keys are "/allocation/<pool>/<subscriber id>"; the id itself may contain "/"
	sub := key
	if parts := strings.SplitN(key, "/", 4); len(parts) == 4 && parts[0] == "" {
		sub = parts[3]
	}
	g := m.parks.match(op, sub)
	if g == nil {
		return nil
	}
	honour := m.honourCtx
	m.mu.Unlock()
	var failed bool
	if honour && ctx != nil {
		var cerr error
		if failed, cerr = g.waitCtx(ctx); cerr != nil {
			m.mu.Lock()
			m.lastFailed = op + "(context)"
			return fmt.Errorf("store %s: %w", op, cerr)
		}
	} else {
		failed = g.wait()
	}
	m.mu.Lock()
	if failed {
		m.lastFailed = op + "(held back)"
		return fmt.Errorf("%w (%s %s held back, then refused)", ErrInjected, op, key)
	}
	return nil
}

// Park selects the nth (1-based) future write of kind op ("put", "delete" or "" = either) for subscriber sub
// ("" = any) to be held back at the returned gate until Gate.Open.
func (m *MemStore) Park(op, sub string, nth int) *Gate { return m.parks.add(op, m.tr.ID(sub), nth) }

// Arm resets the call counter and selects the call (1-based, 0 = none) that will fail.
func (m *MemStore) Arm(failAt int) { m.mu.Lock(); m.calls, m.failAt = 0, failAt; m.mu.Unlock() }

// SetPerm selects the enumeration order of the next Query calls.
func (m *MemStore) SetPerm(p uint64) { m.mu.Lock(); m.perm = p; m.mu.Unlock() }

// ResetWatchers forgets registered watchers (the watching instance was stopped).
func (m *MemStore) ResetWatchers() { m.mu.Lock(); m.watchers = nil; m.pending = nil; m.mu.Unlock() }

// Calls returns the number of store calls so far.
func (m *MemStore) Calls() int { m.mu.Lock(); defer m.mu.Unlock(); return m.calls }

// LastFailed returns the kind of the call that was failed ("" if none yet).
func (m *MemStore) LastFailed() string { m.mu.Lock(); defer m.mu.Unlock(); return m.lastFailed }

// Flush delivers (echo=true) or drops (echo=false) the watch events of local writes, in order.
func (m *MemStore) Flush(echo bool) {
	m.mu.Lock()
	ev := m.pending
	m.pending = nil
	ws := append(m.watchers[:0:0], m.watchers...)
	m.mu.Unlock()
	if !echo {
		return
	}
	for _, e := range ev {
		for _, w := range ws {
			if strings.HasPrefix(e.key, w.prefix) {
				w.cb(e.key, e.value, e.deleted)
			}
		}
	}
}

// RemoteWrite applies a write made by another node (no call counting) and delivers the watch event.
func (m *MemStore) RemoteWrite(key string, value []byte, deleted bool) {
	m.mu.Lock()
	if deleted {
		delete(m.data, key)
	} else {
		m.data[key] = append([]byte(nil), value...)
	}
	ws := append(m.watchers[:0:0], m.watchers...)
	m.mu.Unlock()
	for _, w := range ws {
		if strings.HasPrefix(key, w.prefix) {
			w.cb(key, value, deleted)
		}
	}
}

// FailingAllocStore wraps an allocator.AllocationStore, counts every call and fails call number failAt
// (the underlying store is not touched by the failed call: the write did not happen).
type FailingAllocStore struct {
	Inner      allocator.AllocationStore
	mu         sync.Mutex
	calls      int
	failAt     int
	lastFailed string
	parks      parkSet
	tr         *Translator // harness subscriber name -> id as the allocator passes it (nil: identity)
}

// Park selects the nth (1-based) future write of kind op ("save", "remove" or "" = either) for subscriber sub
// ("" = any) to be held back at the returned gate until Gate.Open.
func (f *FailingAllocStore) Park(op, sub string, nth int) *Gate {
	return f.parks.add(op, f.tr.ID(sub), nth)
}

func (f *FailingAllocStore) park(op, sub string) error {
	g := f.parks.match(op, sub)
	if g == nil {
		return nil
	}
	if g.wait() {
		f.mu.Lock()
		f.lastFailed = op + "(held back)"
		f.mu.Unlock()
		return fmt.Errorf("%w (%s %s held back, then refused)", ErrInjected, op, sub)
	}
	return nil
}

// NewFailingAllocStore wraps inner.
func NewFailingAllocStore(inner allocator.AllocationStore, failAt int) *FailingAllocStore {
	return &FailingAllocStore{Inner: inner, failAt: failAt}
}

func (f *FailingAllocStore) hit(what string) error {
	f.mu.Lock()
	defer f.mu.Unlock()
	f.calls++
	if f.failAt > 0 && f.calls == f.failAt {
		f.lastFailed = what
		return fmt.Errorf("%w (%s, call %d)", ErrInjected, what, f.calls)
	}
	return nil
}

// Calls returns the number of store calls so far.
func (f *FailingAllocStore) Calls() int { f.mu.Lock(); defer f.mu.Unlock(); return f.calls }

// LastFailed returns the kind of the failed call.
func (f *FailingAllocStore) LastFailed() string {
	f.mu.Lock()
	defer f.mu.Unlock()
	return f.lastFailed
}

func (f *FailingAllocStore) SaveAllocation(ctx context.Context, a allocator.AllocationRecord) error {
	if err := f.hit("save"); err != nil {
		return err
	}
	if err := f.park("save", a.SubscriberID); err != nil {
		return err
	}
	return f.Inner.SaveAllocation(ctx, a)
}
func (f *FailingAllocStore) RemoveAllocation(ctx context.Context, poolID, sub string) error {
	if err := f.hit("remove"); err != nil {
		return err
	}
	if err := f.park("remove", sub); err != nil {
		return err
	}
	return f.Inner.RemoveAllocation(ctx, poolID, sub)
}
func (f *FailingAllocStore) GetBySubscriber(ctx context.Context, sub string) ([]allocator.AllocationRecord, error) {
	return f.Inner.GetBySubscriber(ctx, sub)
}
func (f *FailingAllocStore) GetByPool(ctx context.Context, poolID string) ([]allocator.AllocationRecord, error) {
	return f.Inner.GetByPool(ctx, poolID)
}
func (f *FailingAllocStore) GetByPoolType(ctx context.Context, pt allocator.PoolType) ([]allocator.AllocationRecord, error) {
	return f.Inner.GetByPoolType(ctx, pt)
}
func (f *FailingAllocStore) GetByIP(ctx context.Context, ip net.IP) (*allocator.AllocationRecord, error) {
	return f.Inner.GetByIP(ctx, ip)
}
func (f *FailingAllocStore) GetPoolUtilization(ctx context.Context, poolID string) (int, int, error) {
	return f.Inner.GetPoolUtilization(ctx, poolID)
}
func (f *FailingAllocStore) ListPools(ctx context.Context) ([]string, error) {
	return f.Inner.ListPools(ctx)
}

// ---------------------------------------------------------------- holding a write back (harness-owned schedules)

// Gate is one store write held back by the harness: the write blocks at the gate until Open decides its outcome.
type Gate struct {
	op, sub string
	nth     int
	seen    int
	arrived chan struct{} // closed when a write reached the gate
	open    chan struct{} // closed by Open
	fail    bool
	off     bool // guarded by the owning parkSet's lock
	set     *parkSet
	aOnce   sync.Once
	oOnce   sync.Once
}

// Disarm makes the gate ignore writes from now on (a gate no write has reached must not catch a later, unrelated one).
func (g *Gate) Disarm() {
	g.set.mu.Lock()
	g.off = true
	g.set.mu.Unlock()
}

// Arrived is closed once a write is waiting at (or has passed) the gate.
func (g *Gate) Arrived() <-chan struct{} { return g.arrived }

// Reached reports whether a write has reached the gate.
func (g *Gate) Reached() bool {
	select {
	case <-g.arrived:
		return true
	default:
		return false
	}
}

// Open lets the write through: it is applied (fail=false) or refused with ErrInjected (fail=true). A write that
// reaches an already open gate passes at once with the same outcome. Only the first call counts.
func (g *Gate) Open(fail bool) {
	g.oOnce.Do(func() {
		g.fail = fail
		close(g.open)
	})
}

// waitCtx is wait for a store that honours the caller's context: the held-back write is abandoned when the context ends.
func (g *Gate) waitCtx(ctx context.Context) (failed bool, err error) {
	g.aOnce.Do(func() { close(g.arrived) })
	select {
	case <-g.open:
		return g.fail, nil
	case <-ctx.Done():
		return false, ctx.Err()
	}
}

func (g *Gate) wait() (failed bool) {
	g.aOnce.Do(func() { close(g.arrived) })
	<-g.open
	return g.fail
}

type parkSet struct {
	mu    sync.Mutex
	gates []*Gate
}

func (p *parkSet) add(op, sub string, nth int) *Gate {
	if nth < 1 {
		nth = 1
	}
	g := &Gate{op: op, sub: sub, nth: nth, arrived: make(chan struct{}), open: make(chan struct{}), set: p}
	p.mu.Lock()
	p.gates = append(p.gates, g)
	p.mu.Unlock()
	return g
}

// match returns the gate this write must wait at (each gate takes exactly one write), or nil.
func (p *parkSet) match(op, sub string) *Gate {
	p.mu.Lock()
	defer p.mu.Unlock()
	for _, g := range p.gates {
		if g.off || g.seen >= g.nth || (g.op != "" && g.op != op) || (g.sub != "" && g.sub != sub) {
			continue
		}
		g.seen++
		if g.seen == g.nth {
			return g
		}
	}
	return nil
}
