package pools

import (
	"bytes"
	"context"
	"encoding/json"
	"fmt"
	"net"
	"net/http"
	"net/http/httptest"
	"strings"
	"sync"
	"time"

	"github.com/codelaboratoryltd/bng/pkg/allocator"
	"github.com/codelaboratoryltd/bng/pkg/dhcp"
	"github.com/codelaboratoryltd/bng/pkg/dhcpv6"
	"github.com/codelaboratoryltd/bng/pkg/pool"
	"github.com/codelaboratoryltd/bng/pkg/pppoe"

	"bngverif/internal/vstat"
)

var bg = context.Background()

func cidrStr(n *net.IPNet) string {
	if n == nil {
		return ""
	}
	return n.String()
}

func ipStr(ip net.IP) string {
	if ip == nil {
		return ""
	}
	return ip.String()
}

func parseVal(val string) *net.IPNet {
	_, n, err := net.ParseCIDR(val)
	if err != nil {
		return nil
	}
	return n
}

// ---------------------------------------------------------------- allocator.IPAllocator

type bitmapPool struct {
	a    *allocator.IPAllocator
	net  *net.IPNet
	unit int
}

func (b *bitmapPool) Alloc(sub string) (string, error) {
	p, err := b.a.Allocate(sub)
	return cidrStr(p), err
}
func (b *bitmapPool) Release(sub string) error         { return b.a.Release(sub) }
func (b *bitmapPool) Lookup(sub string) (string, bool) { return cidrStr(b.a.Lookup(sub)), true }
func (b *bitmapPool) Reverse(val string) (string, bool) {
	n := parseVal(val)
	if n == nil {
		return "", false
	}
	return b.a.LookupByPrefix(n), true
}
func (b *bitmapPool) Close() {}
func (b *bitmapPool) ValueAt(i int) string {
	_, bits := b.net.Mask.Size()
	ip := addrAt(b.net, b.unit, i)
	return (&net.IPNet{IP: ip.Mask(net.CIDRMask(b.unit, bits)), Mask: net.CIDRMask(b.unit, bits)}).String()
}
func (b *bitmapPool) ReleaseValue(val string) error { return b.a.ReleasePrefix(parseVal(val)) }
func (b *bitmapPool) AllocSpecific(sub, val string) error {
	return b.a.AllocateSpecific(sub, parseVal(val))
}
func (b *bitmapPool) SetAllocation(sub, val string) error {
	return b.a.SetAllocation(sub, parseVal(val))
}
func (b *bitmapPool) Reload(uint64) error {
	raw, err := json.Marshal(b.a)
	if err != nil {
		return err
	}
	na := &allocator.IPAllocator{}
	if err := json.Unmarshal(raw, na); err != nil {
		return err
	}
	b.a = na
	return nil
}
func (b *bitmapPool) Stats() (uint64, uint64, float64, bool) {
	a, t, u := b.a.Stats()
	return a, t, u, true
}

func percent(a, t uint64) float64 {
	if t == 0 {
		return 0
	}
	return float64(a) / float64(t) * 100
}

// BitmapFactory wraps allocator.IPAllocator: every index of the pool is usable (documented: one bit per prefix).
func BitmapFactory(cidr string, unit int, class string) Factory {
	n := mustCIDR(cidr)
	u, huge := unitsOf(n, unit)
	return Factory{
		Info: Info{Impl: "bitmap", Class: class, Desc: fmt.Sprintf("IPAllocator(%s,/%d)", cidr, unit), Net: n, Unit: unit,
			Usable: u, Huge: huge, UtilOf: percent},
		New: func(int) Pool {
			a, err := allocator.NewIPAllocator(cidr, unit)
			if err != nil {
				panic(fmt.Sprintf("generator produced a geometry the constructor rejects: %v", err))
			}
			return &bitmapPool{a: a, net: n, unit: unit}
		},
	}
}

// ---------------------------------------------------------------- allocator.EpochBitmapAllocator

type epochPool struct {
	a   *allocator.EpochBitmapAllocator
	net *net.IPNet
}

func (e *epochPool) Alloc(sub string) (string, error) {
	ip, err := e.a.Allocate(bg, sub)
	return ipStr(ip), err
}
func (e *epochPool) Release(sub string) error         { return e.a.Release(bg, sub) }
func (e *epochPool) Lookup(sub string) (string, bool) { return ipStr(e.a.Lookup(sub)), true }
func (e *epochPool) Reverse(val string) (string, bool) {
	return e.a.LookupByIP(net.ParseIP(val)), true
}
func (e *epochPool) Close()                 {}
func (e *epochPool) Renew(sub string) error { return e.a.Renew(bg, sub) }
func (e *epochPool) Advance() uint64        { return e.a.AdvanceEpoch() }
func (e *epochPool) Epoch() uint64          { return e.a.GetCurrentEpoch() }
func (e *epochPool) ValueAt(i int) string   { return addrAt(e.net, -1, i).String() }

// SetAllocation applies a stored / announced record directly (what loadAllocations and handleRemoteChange do).
func (e *epochPool) SetAllocation(sub, val string) error {
	return e.a.SetAllocation(sub, net.ParseIP(val))
}
func (e *epochPool) Stats() (uint64, uint64, float64, bool) {
	a, t, u := e.a.Stats()
	return a, t, u, true
}

func fraction(a, t uint64) float64 {
	if t == 0 {
		return 0
	}
	return float64(a) / float64(t)
}

// epochUsable: documented "Skip network address (index 0) and broadcast (last index)".
func epochUsable(n *net.IPNet) uint64 {
	u, _ := unitsOf(n, 32)
	if u <= 2 {
		return 0
	}
	return u - 2
}

func effGrace(g uint64) uint64 {
	if g == 0 {
		return 1 // documented default
	}
	return g
}

// EpochFactory wraps allocator.EpochBitmapAllocator allocating /32 addresses.
func EpochFactory(cidr string, grace uint64, class string) Factory {
	n := mustCIDR(cidr)
	return Factory{
		Info: Info{Impl: "epoch", Class: class, Desc: fmt.Sprintf("EpochBitmapAllocator(%s,grace=%d)", cidr, grace), Net: n, Unit: -1,
			Usable: epochUsable(n), Grace: effGrace(grace), Epochal: true, UtilOf: fraction},
		New: func(int) Pool {
			a, err := allocator.NewEpochBitmapAllocator(allocator.EpochBitmapConfig{BaseNetwork: cidr, PrefixLength: 32, GracePeriod: grace})
			if err != nil {
				panic(fmt.Sprintf("constructor: %v", err))
			}
			return &epochPool{a: a, net: n}
		},
	}
}

// ---------------------------------------------------------------- allocator.DistributedAllocator

// EpochPeriod is the virtual epoch length used for lease-mode instances.
const EpochPeriod = time.Hour

type distPool struct {
	cx     context.Context // context of the next calls (nil = Background), see SetContext
	cfg    allocator.DistributedConfig
	st     *MemStore
	a      *allocator.DistributedAllocator
	cancel context.CancelFunc
	net    *net.IPNet
	unit   int
	lease  bool
	echo   bool
	wait   func()      // synctest.Wait supplied by the runner (lease mode runs in a bubble)
	tr     *Translator // harness subscriber name <-> the id the allocator and the store see
}

func (d *distPool) start() error {
	a, err := allocator.NewDistributedAllocator(d.cfg, d.st)
	if err != nil {
		panic(fmt.Sprintf("constructor: %v", err))
	}
	ctx, cancel := context.WithCancel(context.Background())
	if err := a.Start(ctx); err != nil {
		cancel()
		return err
	}
	d.a, d.cancel = a, cancel
	return nil
}

func (d *distPool) Alloc(sub string) (string, error) {
	p, err := d.a.Allocate(ctxOr(d.cx), d.tr.ID(sub))
	d.st.Flush(d.echo)
	return cidrStr(p), err
}
func (d *distPool) Release(sub string) error {
	err := d.a.Release(ctxOr(d.cx), d.tr.ID(sub))
	d.st.Flush(d.echo)
	return err
}
func (d *distPool) Lookup(sub string) (string, bool) {
	p, ok := d.a.Get(d.tr.ID(sub))
	if !ok {
		return "", true
	}
	return cidrStr(p), true
}
func (d *distPool) Reverse(val string) (string, bool) {
	n := parseVal(val)
	if n == nil {
		return "", false
	}
	s, _ := d.a.GetByPrefix(n)
	return d.tr.Name(s), true
}
func (d *distPool) Close() {
	if d.cancel != nil {
		d.cancel()
	}
	if d.wait != nil {
		d.wait()
	}
}
func (d *distPool) Renew(sub string) error {
	err := d.a.Renew(ctxOr(d.cx), d.tr.ID(sub))
	d.st.Flush(d.echo)
	return err
}

// Advance lets one epoch period of virtual time pass: the allocator's own epochLoop advances the epoch
// and cleans the store, exactly as in production.
func (d *distPool) Advance() uint64 {
	time.Sleep(EpochPeriod)
	d.wait()
	d.st.Flush(d.echo)
	return d.a.GetCurrentEpoch()
}
func (d *distPool) Epoch() uint64 { return d.a.GetCurrentEpoch() }
func (d *distPool) ValueAt(i int) string {
	_, bits := d.net.Mask.Size()
	return (&net.IPNet{IP: addrAt(d.net, d.unit, i), Mask: net.CIDRMask(d.unit, bits)}).String()
}

// Reload stops the instance and starts a new one over the same store (restart of the gateway).
func (d *distPool) Reload(perm uint64) error {
	d.Close()
	d.st.ResetWatchers()
	d.st.SetPerm(perm)
	if err := d.start(); err != nil {
		// a gateway whose start-up load fails is restarted by its supervisor; the injected fault is single
		return d.start()
	}
	return nil
}
func (d *distPool) Stats() (uint64, uint64, float64, bool) {
	s := d.a.Stats()
	return uint64(s.Allocated), uint64(s.Total), s.Utilization, true
}
func (d *distPool) key(sub string) string {
	return "/allocation/" + d.cfg.PoolID + "/" + d.tr.ID(sub)
}
func (d *distPool) RemoteSet(sub, val string) {
	rec := allocator.DistributedAllocation{PoolID: d.cfg.PoolID, SubscriberID: d.tr.ID(sub), Prefix: val,
		Epoch: d.a.GetCurrentEpoch(), AllocatedAt: time.Unix(1700000000, 0).UTC()}
	raw, _ := json.Marshal(rec)
	d.st.RemoteWrite(d.key(sub), raw, false)
}
func (d *distPool) RemoteDelete(sub string) { d.st.RemoteWrite(d.key(sub), nil, true) }
func (d *distPool) StoreCalls() int         { return d.st.Calls() }
func (d *distPool) LastFailedCall() string  { return d.st.LastFailed() }

// DistFactory wraps allocator.DistributedAllocator over the harness MemStore.
// wait must be synctest.Wait when lease is true (the instance runs its epochLoop on virtual time).
func DistFactory(cidr string, unit int, lease bool, grace int, echo bool, class string, wait func()) Factory {
	n := mustCIDR(cidr)
	info := Info{Class: class, Net: n, Unit: unit}
	cfg := allocator.DistributedConfig{PoolID: "p1", BaseNetwork: cidr, PrefixLen: unit, Mode: allocator.PoolModeSession}
	if lease {
		cfg.Mode = allocator.PoolModeLease
		cfg.EpochPeriod = EpochPeriod
		cfg.EpochGrace = grace
		info.Impl = "dist-lease"
		info.Usable = epochUsable(n)
		info.Grace = effGrace(uint64(grace))
		info.Epochal = true
		info.Bubble = true
		info.UtilOf = fraction
		info.Unit = 32
		info.Desc = fmt.Sprintf("DistributedAllocator(lease,%s,grace=%d,echo=%v)", cidr, grace, echo)
	} else {
		info.Impl = "dist-session"
		info.Usable, info.Huge = unitsOf(n, unit)
		info.UtilOf = percent
		info.Desc = fmt.Sprintf("DistributedAllocator(session,%s,/%d,echo=%v)", cidr, unit, echo)
	}
	tr := translatorFor(class, cfg.PoolID, false, "dist", cidr, unit, lease, grace, echo)
	info.Desc += ",ids=" + tr.Scheme()
	return Factory{Info: info, New: func(failAt int) Pool {
		d := &distPool{cfg: cfg, st: NewMemStore(0), net: n, unit: info.Unit, lease: lease, echo: echo, tr: tr}
		d.st.tr = tr
		vstat.Class("pool-instances:ids:"+tr.Scheme(), 1)
		if lease {
			d.wait = wait
		}
		if err := d.start(); err != nil {
			panic(fmt.Sprintf("start on an empty store failed: %v", err))
		}
		d.st.Arm(failAt) // fault points are the store calls made after a successful start-up
		return d
	}}
}

// ---------------------------------------------------------------- allocator.LocalAllocator / PoolAllocator

type localPool struct {
	cx context.Context
	a  *allocator.LocalAllocator
	tr *Translator
}

const localPoolID = "lp"

func (l *localPool) Alloc(sub string) (string, error) {
	p, err := l.a.AllocateWithMAC(ctxOr(l.cx), l.tr.ID(sub), localPoolID, MacOf(sub).String())
	return cidrStr(p), err
}
func (l *localPool) Release(sub string) error {
	return l.a.Release(ctxOr(l.cx), l.tr.ID(sub), localPoolID)
}
func (l *localPool) Lookup(sub string) (string, bool) {
	p, _ := l.a.GetPool(localPoolID)
	return cidrStr(p.Lookup(l.tr.ID(sub))), true
}

// Reverse goes through the allocation store's IP index (the second view of the same allocations).
func (l *localPool) Reverse(val string) (string, bool) {
	n := parseVal(val)
	if n == nil {
		return "", false
	}
	info, err := l.a.LookupByIP(bg, n.IP)
	if err != nil || info == nil {
		return "", true
	}
	return l.tr.Name(info.SubscriberID), true
}
func (l *localPool) Close() { _ = l.a.Close() }
func (l *localPool) Stats() (uint64, uint64, float64, bool) {
	a, t, u, _ := l.a.Stats(bg, localPoolID)
	return a, t, u, true
}

// StoreCount is the allocation store's own count of allocations in the pool (GetByPool).
func (l *localPool) StoreCount() int {
	r, _ := l.a.LookupByPool(bg, localPoolID)
	return len(r)
}

// StoreCounter is implemented by adapters whose persistence layer keeps an independent count.
type StoreCounter interface{ StoreCount() int }

// StoreUtiler exposes AllocationStore.GetPoolUtilization for the pool.
type StoreUtiler interface {
	// totalKnown is false when the pool total could not be registered with the store (wrapped store).
	StoreUtil() (allocated, total int, totalKnown bool)
}

// LocalFactory wraps allocator.LocalAllocator (PoolAllocator + MemoryAllocationStore).
func LocalFactory(cidr string, unit int, class string) Factory {
	n := mustCIDR(cidr)
	u, huge := unitsOf(n, unit)
	tr := translatorFor(class, localPoolID, true, "local", cidr, unit)
	return Factory{
		Info: Info{Impl: "localalloc", Class: class, Desc: fmt.Sprintf("LocalAllocator(%s,/%d,ids=%s)", cidr, unit, tr.Scheme()), Net: n, Unit: unit,
			Usable: u, Huge: huge, UtilOf: percent},
		New: func(int) Pool {
			a, err := allocator.NewLocalAllocator(allocator.LocalAllocatorConfig{Pools: []allocator.PoolConfig{{ID: localPoolID, CIDR: cidr, PrefixLength: unit}}})
			if err != nil {
				panic(fmt.Sprintf("constructor: %v", err))
			}
			vstat.Class("pool-instances:ids:"+tr.Scheme(), 1)
			return &localPool{a: a, tr: tr}
		},
	}
}

type poolAllocPool struct {
	cx    context.Context
	p     *allocator.PoolAllocator
	st    *FailingAllocStore
	inner *allocator.MemoryAllocationStore
	tr    *Translator
}

func (p *poolAllocPool) Alloc(sub string) (string, error) {
	n, err := p.p.Allocate(ctxOr(p.cx), p.tr.ID(sub), MacOf(sub).String())
	return cidrStr(n), err
}
func (p *poolAllocPool) Release(sub string) error { return p.p.Release(ctxOr(p.cx), p.tr.ID(sub)) }
func (p *poolAllocPool) Lookup(sub string) (string, bool) {
	return cidrStr(p.p.Lookup(p.tr.ID(sub))), true
}
func (p *poolAllocPool) Reverse(val string) (string, bool) {
	return "", false // the store view legitimately lags after an injected failure
}
func (p *poolAllocPool) Close() {}
func (p *poolAllocPool) Stats() (uint64, uint64, float64, bool) {
	a, t, u := p.p.Stats()
	return a, t, u, true
}
func (p *poolAllocPool) StoreCalls() int {
	if p.st == nil {
		return 0
	}
	return p.st.Calls()
}
func (p *poolAllocPool) LastFailedCall() string {
	if p.st == nil {
		return ""
	}
	return p.st.LastFailed()
}
func (p *poolAllocPool) StoreUtil() (int, int, bool) {
	a, t, _ := p.inner.GetPoolUtilization(bg, "pa")
	return a, t, p.st == nil
}

// PoolAllocFactory wraps allocator.PoolAllocator over a MemoryAllocationStore; with faulty=true the store sits
// behind the fault-injecting wrapper (then NewPoolAllocator cannot register the pool total with the store).
func PoolAllocFactory(cidr string, unit int, class string, faulty bool) Factory {
	n := mustCIDR(cidr)
	u, huge := unitsOf(n, unit)
	tr := translatorFor(class, "pa", true, "poolalloc", cidr, unit, faulty)
	return Factory{
		Info: Info{Impl: "poolalloc", Class: class, Desc: fmt.Sprintf("PoolAllocator(%s,/%d,ids=%s)", cidr, unit, tr.Scheme()), Net: n, Unit: unit,
			Usable: u, Huge: huge, UtilOf: percent},
		New: func(failAt int) Pool {
			vstat.Class("pool-instances:ids:"+tr.Scheme(), 1)
			inner := allocator.NewMemoryAllocationStore()
			if !faulty {
				pa, err := allocator.NewPoolAllocator("pa", cidr, unit, inner)
				if err != nil {
					panic(fmt.Sprintf("constructor: %v", err))
				}
				return &poolAllocPool{p: pa, inner: inner, tr: tr}
			}
			st := NewFailingAllocStore(inner, failAt)
			st.tr = tr
			pa, err := allocator.NewPoolAllocator("pa", cidr, unit, st)
			if err != nil {
				panic(fmt.Sprintf("constructor: %v", err))
			}
			return &poolAllocPool{p: pa, st: st, inner: inner, tr: tr}
		},
	}
}

// ---------------------------------------------------------------- dhcp.Pool

type dhcp4Pool struct {
	p    *dhcp.Pool
	mu   sync.Mutex        // protects held only (the lease table has its own lock in the server)
	held map[string]net.IP // what the DHCP server's lease table would remember: client -> address
}

func (d *dhcp4Pool) Alloc(sub string) (string, error) {
	ip, err := d.p.Allocate(MacOf(sub))
	if err != nil {
		return "", err
	}
	d.mu.Lock()
	d.held[sub] = ip
	d.mu.Unlock()
	return ipStr(ip), nil
}
func (d *dhcp4Pool) Release(sub string) error {
	d.mu.Lock()
	ip, ok := d.held[sub]
	delete(d.held, sub)
	d.mu.Unlock()
	if !ok {
		return ErrNotHeld
	}
	d.p.Release(ip)
	return nil
}
func (d *dhcp4Pool) Lookup(string) (string, bool)  { return "", false }
func (d *dhcp4Pool) Reverse(string) (string, bool) { return "", false }
func (d *dhcp4Pool) Close()                        {}
func (d *dhcp4Pool) Stats() (uint64, uint64, float64, bool) {
	s := d.p.Stats()
	return uint64(s.Allocated), uint64(s.Total), 0, false
}

// v4Hosts enumerates the host addresses 1..2^h-2 of an IPv4 network that pass keep.
func v4Hosts(n *net.IPNet, keep func(i, numHosts int, ip net.IP) bool) uint64 {
	ones, bits := n.Mask.Size()
	numHosts := (1 << uint(bits-ones)) - 2
	var c uint64
	for i := 1; i <= numHosts; i++ {
		if keep(i, numHosts, addrAt(n, -1, i)) {
			c++
		}
	}
	return c
}

// DHCP4Factory wraps dhcp.Pool. Documented: network and broadcast excluded, first ReservedStart and last
// ReservedEnd hosts excluded, gateway excluded.
func DHCP4Factory(cidr, gateway string, resStart, resEnd int, class string) Factory {
	n := mustCIDR(cidr)
	gw := net.ParseIP(gateway)
	usable := v4Hosts(n, func(i, nh int, ip net.IP) bool {
		return i > resStart && i <= nh-resEnd && !ip.Equal(gw)
	})
	return Factory{
		Info: Info{Impl: "dhcp4", Class: class, Desc: fmt.Sprintf("dhcp.Pool(%s,gw=%s,reserved=%d/%d)", cidr, gateway, resStart, resEnd),
			Net: n, Unit: -1, Usable: usable},
		New: func(int) Pool {
			p, err := dhcp.NewPool(dhcp.PoolConfig{ID: 1, Name: "p", Network: cidr, Gateway: gateway, LeaseTime: time.Hour,
				ReservedStart: resStart, ReservedEnd: resEnd})
			if err != nil {
				panic(fmt.Sprintf("constructor: %v", err))
			}
			return &dhcp4Pool{p: p, held: map[string]net.IP{}}
		},
	}
}

// ---------------------------------------------------------------- dhcpv6.AddressPool / PrefixPool

type v6AddrPool struct{ p *dhcpv6.AddressPool }

func (v *v6AddrPool) Alloc(sub string) (string, error) {
	ip := v.p.Allocate(DUIDOf(sub))
	if ip == nil {
		return "", ErrExhausted
	}
	return ip.String(), nil
}
func (v *v6AddrPool) Release(sub string) error      { v.p.Release(DUIDOf(sub)); return nil }
func (v *v6AddrPool) Lookup(string) (string, bool)  { return "", false }
func (v *v6AddrPool) Reverse(string) (string, bool) { return "", false }
func (v *v6AddrPool) Close()                        {}

// V6AddrFactory wraps dhcpv6.AddressPool. Documented: "just first 1000" addresses after the network address.
func V6AddrFactory(cidr string, class string) Factory {
	n := mustCIDR(cidr)
	u, _ := unitsOf(n, 128)
	usable := uint64(1000)
	if u-1 < usable { // u saturates at MaxUint64, so u-1 is safe
		usable = u - 1
	}
	return Factory{
		Info: Info{Impl: "dhcp6-addr", Class: class, Desc: fmt.Sprintf("dhcpv6.AddressPool(%s)", cidr), Net: n, Unit: -1, Usable: usable},
		New: func(int) Pool {
			p, err := dhcpv6.NewAddressPool(cidr, 3600, 7200)
			if err != nil {
				panic(fmt.Sprintf("constructor: %v", err))
			}
			return &v6AddrPool{p}
		},
	}
}

type v6PrefixPool struct{ p *dhcpv6.PrefixPool }

func (v *v6PrefixPool) Alloc(sub string) (string, error) {
	n := v.p.Allocate(DUIDOf(sub))
	if n == nil {
		return "", ErrExhausted
	}
	return n.String(), nil
}
func (v *v6PrefixPool) Release(sub string) error      { v.p.Release(DUIDOf(sub)); return nil }
func (v *v6PrefixPool) Lookup(string) (string, bool)  { return "", false }
func (v *v6PrefixPool) Reverse(string) (string, bool) { return "", false }
func (v *v6PrefixPool) Close()                        {}

// V6PrefixFactory wraps dhcpv6.PrefixPool. Documented: min(2^(delegation-pool), 1000) prefixes ("Limit for memory").
func V6PrefixFactory(cidr string, dl int, class string) Factory {
	n := mustCIDR(cidr)
	u, _ := unitsOf(n, dl)
	if u > 1000 {
		u = 1000
	}
	return Factory{
		Info: Info{Impl: "dhcp6-pd", Class: class, Desc: fmt.Sprintf("dhcpv6.PrefixPool(%s,/%d)", cidr, dl), Net: n, Unit: dl, Usable: u},
		New: func(int) Pool {
			p, err := dhcpv6.NewPrefixPool(cidr, uint8(dl), 3600, 7200)
			if err != nil {
				panic(fmt.Sprintf("constructor: %v", err))
			}
			return &v6PrefixPool{p}
		},
	}
}

// ---------------------------------------------------------------- pppoe.IPPool

type pppoePool struct{ p *pppoe.IPPool }

func (p *pppoePool) Alloc(sub string) (string, error) {
	ip := p.p.Allocate(sub)
	if ip == nil {
		return "", ErrExhausted
	}
	return ip.String(), nil
}
func (p *pppoePool) Release(sub string) error      { p.p.Release(sub); return nil }
func (p *pppoePool) Lookup(string) (string, bool)  { return "", false }
func (p *pppoePool) Reverse(string) (string, bool) { return "", false }
func (p *pppoePool) Close()                        {}

// Raw exposes the real pool (for the IPCP machines that share one pool).
func (p *pppoePool) Raw() *pppoe.IPPool { return p.p }

// PPPoEFactory wraps pppoe.IPPool. Documented: "skip network, gateway, and broadcast".
// The implementation's isBroadcast only recognises 255.255.255.255, so it also hands out the subnet
// broadcast address; C05 does not forbid extra values, hence UsableMax = Usable+1.
func PPPoEFactory(cidr, gateway string, class string) Factory {
	n := mustCIDR(cidr)
	gw := net.ParseIP(gateway)
	usable := v4Hosts(n, func(i, nh int, ip net.IP) bool { return !ip.Equal(gw) })
	ones, bits := n.Mask.Size()
	max := usable
	if bits-ones >= 1 && !addrAt(n, -1, (1<<uint(bits-ones))-1).Equal(gw) {
		max++ // subnet broadcast address
	}
	return Factory{
		Info: Info{Impl: "pppoe", Class: class, Desc: fmt.Sprintf("pppoe.IPPool(%s,gw=%s)", cidr, gateway), Net: n, Unit: -1, Usable: usable, UsableMax: max},
		New: func(int) Pool {
			p, err := pppoe.NewIPPool(cidr, gateway)
			if err != nil {
				panic(fmt.Sprintf("constructor: %v", err))
			}
			return &pppoePool{p}
		},
	}
}

// ---------------------------------------------------------------- pool.PeerPool (single node: every subscriber is local)

type peerPool struct {
	p    *pool.PeerPool
	once sync.Once
	m    *http.ServeMux
}

func (p *peerPool) Alloc(sub string) (string, error) {
	r, err := p.p.Allocate(bg, sub, MacOf(sub))
	if err != nil {
		return "", err
	}
	return r.IP, nil
}
func (p *peerPool) Release(sub string) error { return p.p.Release(bg, sub) }
func (p *peerPool) Lookup(sub string) (string, bool) {
	r, ok := p.p.Get(sub)
	if !ok {
		return "", true
	}
	return r.IP, true
}
func (p *peerPool) Reverse(string) (string, bool) { return "", false }
func (p *peerPool) Close()                        {}
func (p *peerPool) Stats() (uint64, uint64, float64, bool) {
	s := p.p.Stats()
	return uint64(s.Allocated), uint64(s.Total), 0, false
}

// PeerFactory wraps pool.PeerPool with this node as the only peer. Documented: network, broadcast, gateway excluded.
func PeerFactory(cidr, gateway string, class string) Factory {
	n := mustCIDR(cidr)
	gw := net.ParseIP(gateway)
	usable := v4Hosts(n, func(i, nh int, ip net.IP) bool { return !ip.Equal(gw) })
	return Factory{
		Info: Info{Impl: "peer", Class: class, Desc: fmt.Sprintf("pool.PeerPool(%s,gw=%s)", cidr, gateway), Net: n, Unit: -1, Usable: usable},
		New: func(int) Pool {
			p, err := pool.NewPeerPool(pool.PeerPoolConfig{NodeID: "node-a", Network: cidr, Gateway: gateway, LeaseTime: time.Hour})
			if err != nil {
				panic(fmt.Sprintf("constructor: %v", err))
			}
			return &peerPool{p: p}
		},
	}
}

// EpochConfigOK reports whether the epoch allocator's constructor accepts the configuration
// (a configuration the constructor rejects is outside the input domain).
func EpochConfigOK(cidr string, grace uint64) bool {
	_, err := allocator.NewEpochBitmapAllocator(allocator.EpochBitmapConfig{BaseNetwork: cidr, PrefixLength: 32, GracePeriod: grace})
	return err == nil
}

// ---------------------------------------------------------------- secondary entry points and state snapshots (C01)

// AllocAlt: the DHCP path of the distributed allocator (AllocateWithMAC).
func (d *distPool) AllocAlt(sub string) (string, error) {
	p, err := d.a.AllocateWithMAC(ctxOr(d.cx), d.tr.ID(sub), MacOf(sub))
	d.st.Flush(d.echo)
	return cidrStr(p), err
}

// ReleaseAlt: the distributed allocator has one release entry point.
func (d *distPool) ReleaseAlt(sub string) error { return d.Release(sub) }

// Store exposes the harness store (parking of writes, see MemStore.Park).
func (d *distPool) Store() *MemStore { return d.st }

// AllocAlt: LocalAllocator.Allocate (no MAC), the other method of the Allocator interface.
func (l *localPool) AllocAlt(sub string) (string, error) {
	p, err := l.a.Allocate(ctxOr(l.cx), l.tr.ID(sub), localPoolID)
	return cidrStr(p), err
}
func (l *localPool) ReleaseAlt(sub string) error { return l.Release(sub) }

// AllocAlt: AllocateWithOptions with DUID and IAID, exactly what the DHCPv6 server calls.
func (p *poolAllocPool) AllocAlt(sub string) (string, error) {
	_, n := SubNum(sub)
	ip, err := p.p.AllocateWithOptions(ctxOr(p.cx), allocator.AllocateOptions{SubscriberID: p.tr.ID(sub), DUID: DUIDOf(sub), IAID: uint32(n + 1)})
	return cidrStr(ip), err
}
func (p *poolAllocPool) ReleaseAlt(sub string) error { return p.Release(sub) }

// AllocStore exposes the fault-injecting / parking store wrapper (nil unless the factory was built with faulty=true).
func (p *poolAllocPool) AllocStore() *FailingAllocStore { return p.st }

func (d *dhcp4Pool) Key(sub string) string { return MacOf(sub).String() }
func (d *dhcp4Pool) Snapshot() Snapshot {
	st := d.p.VerifState()
	return Snapshot{Allocated: st.Allocated, Available: st.Available, Quarantine: st.Unavailable}
}

// Decline is DHCPv6 Decline as handleDecline does it: the address is taken out of the pool, then everything the
// client holds is released (a no-op for the address, which is no longer allocated).
func (v *v6AddrPool) Decline(sub string) {
	v.p.Decline(DUIDOf(sub))
	v.p.Release(DUIDOf(sub))
}
func (v *v6AddrPool) Key(sub string) string { return DUIDOf(sub) }
func (v *v6AddrPool) Snapshot() Snapshot {
	a, f := v.p.VerifState()
	return Snapshot{Allocated: a, Available: f}
}
func (v *v6PrefixPool) Key(sub string) string { return DUIDOf(sub) }
func (v *v6PrefixPool) Snapshot() Snapshot {
	a, f := v.p.VerifState()
	return Snapshot{Allocated: a, Available: f}
}

func (p *pppoePool) Key(sub string) string { return sub }
func (p *pppoePool) Snapshot() Snapshot {
	a, f := p.p.VerifState()
	return Snapshot{Allocated: a, Available: f}
}

func (p *peerPool) Key(sub string) string { return sub }
func (p *peerPool) Snapshot() Snapshot {
	a, r, f := p.p.VerifLocalState()
	return Snapshot{Allocated: a, Available: f, Reverse: r}
}

func (p *peerPool) mux() *http.ServeMux {
	p.once.Do(func() {
		p.m = http.NewServeMux()
		p.p.RegisterHandlers(p.m)
	})
	return p.m
}

// AllocAlt is the request a peer node forwards: POST /pool/allocate on this node's peer API.
func (p *peerPool) AllocAlt(sub string) (string, error) {
	body, _ := json.Marshal(pool.AllocationRequest{SubscriberID: sub, MAC: MacOf(sub).String()})
	rec := httptest.NewRecorder()
	p.mux().ServeHTTP(rec, httptest.NewRequest(http.MethodPost, "/pool/allocate", bytes.NewReader(body)))
	if rec.Code != http.StatusOK {
		return "", fmt.Errorf("peer API: status %d: %s", rec.Code, strings.TrimSpace(rec.Body.String()))
	}
	var resp pool.AllocationResponse
	if err := json.Unmarshal(rec.Body.Bytes(), &resp); err != nil {
		return "", fmt.Errorf("peer API: undecodable reply: %v", err)
	}
	return resp.IP, nil
}

// ReleaseAlt is DELETE /pool/release/{subscriber} on this node's peer API.
func (p *peerPool) ReleaseAlt(sub string) error {
	rec := httptest.NewRecorder()
	p.mux().ServeHTTP(rec, httptest.NewRequest(http.MethodDelete, "/pool/release/"+sub, nil))
	if rec.Code != http.StatusOK && rec.Code != http.StatusNoContent {
		return fmt.Errorf("peer API: status %d", rec.Code)
	}
	return nil
}

// ---------------------------------------------------------------- caller contexts

// CtxSetter is implemented by adapters whose implementation takes the caller's context: SetContext selects the
// context of the following calls (nil = context.Background()).
type CtxSetter interface{ SetContext(ctx context.Context) }

func ctxOr(c context.Context) context.Context {
	if c == nil {
		return bg
	}
	return c
}

func (d *distPool) SetContext(c context.Context)      { d.cx = c }
func (l *localPool) SetContext(c context.Context)     { l.cx = c }
func (p *poolAllocPool) SetContext(c context.Context) { p.cx = c }
