package pools

import (
	"fmt"
	"net"

	"pgregory.net/rapid"
)

// Kind is an abstract pool operation.
type Kind int

// Abstract alphabet shared by C01 and C05; each implementation supports a subset.
const (
	OpAlloc Kind = iota
	OpRelease
	OpRenew
	OpAdvance
	OpReload
	OpRemoteSet
	OpRemoteDel
	OpReleaseValue
	OpAllocSpecific
	OpSetAlloc
	// OpDecline: the holder reports its value unusable (DHCPv6 Decline); the assignment ends, the value is quarantined.
	OpDecline
	// OpAllocAlt / OpReleaseAlt: the same request through the implementation's second entry point
	// (peer HTTP API, AllocateWithMAC, AllocateWithOptions), see pools.AltEntry.
	OpAllocAlt
	OpReleaseAlt
	numKinds
)

var kindNames = [...]string{"alloc", "release", "renew", "advance", "reload", "remoteSet", "remoteDel", "releaseValue", "allocSpecific", "setAlloc", "decline", "allocAlt", "releaseAlt"}

func (k Kind) String() string { return kindNames[k] }

// Op is one generated step: subscriber index S, value selector V, permutation seed P.
type Op struct {
	K Kind
	S int
	V int
	P uint64
}

func (o Op) String() string { return fmt.Sprintf("%s(%d,%d)", o.K, o.S, o.V) }

// GenOps draws a history over nSubs subscribers using the given op kinds with weights.
func GenOps(kinds []Kind, weights []int, nSubs, minLen, maxLen int) *rapid.Generator[[]Op] {
	var bag []Kind
	for i, k := range kinds {
		for j := 0; j < weights[i]; j++ {
			bag = append(bag, k)
		}
	}
	one := rapid.Custom(func(t *rapid.T) Op {
		return Op{
			K: rapid.SampledFrom(bag).Draw(t, "kind"),
			S: rapid.IntRange(0, nSubs-1).Draw(t, "sub"),
			V: rapid.IntRange(0, 11).Draw(t, "val"),
			P: rapid.Uint64().Draw(t, "perm"),
		}
	})
	return rapid.SliceOfN(one, minLen, maxLen)
}

// Geom is a (pool CIDR, unit prefix length) pair for the bitmap-based allocators.
type Geom struct {
	CIDR  string
	Unit  int
	Class string
}

// GenGeom draws pool geometries for the bitmap-based allocators: tiny (1..8 units, weight 2/7) because
// exhaustion and wrap paths only appear there, IPv4 /32 and sub-prefix units, IPv6 delegation pairs, and
// (if hugeOK) pools with >= 2^64 units.
func GenGeom(v6ok, hugeOK bool) *rapid.Generator[Geom] {
	return rapid.Custom(func(t *rapid.T) Geom {
		classes := []string{"tiny", "tiny", "v4", "v4unit"}
		if v6ok {
			classes = append(classes, "v6", "v6")
			if hugeOK {
				classes = append(classes, "huge")
			}
		}
		switch c := rapid.SampledFrom(classes).Draw(t, "geomClass"); c {
		case "tiny":
			bits := rapid.IntRange(0, 3).Draw(t, "unitBits")
			if v6ok && rapid.Bool().Draw(t, "tinyV6") {
				pl := rapid.SampledFrom([]int{48, 56, 60, 64, 120}).Draw(t, "poolLen")
				b := make(net.IP, 16)
				b[0], b[1], b[2], b[3] = 0x20, 0x01, 0x0d, 0xb8
				b[4] = byte(rapid.IntRange(0, 255).Draw(t, "b4"))
				n := &net.IPNet{IP: b.Mask(net.CIDRMask(pl, 128)), Mask: net.CIDRMask(pl, 128)}
				return Geom{n.String(), pl + bits, "tiny-v6"}
			}
			pl := rapid.IntRange(16, 32-bits).Draw(t, "poolLen")
			return Geom{genV4Base(t, 10, pl).String(), pl + bits, "tiny-v4"}
		case "v4":
			pl := rapid.IntRange(16, 30).Draw(t, "poolLen")
			return Geom{genV4Base(t, rapid.IntRange(1, 223).Draw(t, "b0"), pl).String(), 32, "v4/32"}
		case "v4unit":
			pl := rapid.IntRange(16, 28).Draw(t, "poolLen")
			d := rapid.IntRange(1, 32-pl).Draw(t, "delta")
			return Geom{genV4Base(t, 100, pl).String(), pl + d, "v4/sub"}
		case "v6":
			pair := rapid.SampledFrom([][2]int{{48, 56}, {48, 60}, {48, 64}, {56, 64}, {64, 72}, {32, 48}, {112, 128}}).Draw(t, "pair")
			b := make(net.IP, 16)
			b[0], b[1] = 0x20, 0x01
			for i := 2; i < 16; i++ {
				b[i] = byte(rapid.IntRange(0, 255).Draw(t, "b"))
			}
			n := &net.IPNet{IP: b.Mask(net.CIDRMask(pair[0], 128)), Mask: net.CIDRMask(pair[0], 128)}
			return Geom{n.String(), pair[1], fmt.Sprintf("v6/%d->%d", pair[0], pair[1])}
		default: // huge: >= 2^64 units, e.g. the common "/64 pool of /128 addresses"
			pair := rapid.SampledFrom([][2]int{{64, 128}, {48, 128}, {32, 96}, {0, 64}}).Draw(t, "pair")
			b := net.ParseIP("2001:db8::")
			n := &net.IPNet{IP: b.Mask(net.CIDRMask(pair[0], 128)), Mask: net.CIDRMask(pair[0], 128)}
			return Geom{n.String(), pair[1], "huge"}
		}
	})
}

func genV4Base(t *rapid.T, b0, pl int) *net.IPNet {
	b := net.IPv4(byte(b0), byte(rapid.IntRange(0, 255).Draw(t, "b1")), byte(rapid.IntRange(0, 255).Draw(t, "b2")), byte(rapid.IntRange(0, 255).Draw(t, "b3"))).To4()
	return &net.IPNet{IP: b.Mask(net.CIDRMask(pl, 32)), Mask: net.CIDRMask(pl, 32)}
}

// V4Net is an IPv4 network with a gateway for the free-list pools.
type V4Net struct {
	CIDR    string
	Gateway string
	Class   string
}

// GenV4Net draws an aligned IPv4 network /22../30 (small ones weighted: exhaustion must be reachable) and a
// gateway that is the first host, the last host, a middle host or outside the network.
func GenV4Net() *rapid.Generator[V4Net] {
	return rapid.Custom(func(t *rapid.T) V4Net {
		pl := rapid.SampledFrom([]int{30, 30, 30, 30, 30, 30, 29, 29, 29, 28, 28, 27, 26, 24, 22}).Draw(t, "poolLen")
		n := genV4Base(t, rapid.SampledFrom([]int{10, 100, 172, 192}).Draw(t, "b0"), pl)
		hosts := (1 << uint(32-pl)) - 2
		var gw net.IP
		gclass := rapid.SampledFrom([]string{"first", "first", "last", "mid", "outside"}).Draw(t, "gwClass")
		switch gclass {
		case "first":
			gw = addrAt(n, -1, 1)
		case "last":
			gw = addrAt(n, -1, hosts)
		case "mid":
			gw = addrAt(n, -1, rapid.IntRange(1, hosts).Draw(t, "gwIdx"))
		default:
			gw = net.IPv4(198, 51, 100, 1).To4()
		}
		size := "large"
		if pl >= 28 {
			size = "small"
		}
		if pl >= 29 {
			size = "micro"
		}
		return V4Net{n.String(), gw.String(), fmt.Sprintf("v4-%s/gw-%s", size, gclass)}
	})
}

// GenEpochNet draws the /k IPv4 network of an epoch allocator; tinyOK adds /31 and /32 (0 usable addresses).
func GenEpochNet(tinyOK bool) *rapid.Generator[string] {
	return rapid.Custom(func(t *rapid.T) string {
		hb := []int{2, 2, 3, 3, 3, 4, 4, 5, 6, 8}
		if tinyOK {
			hb = append(hb, 0, 1)
		}
		bits := rapid.SampledFrom(hb).Draw(t, "hostBits")
		return genV4Base(t, 10, 32-bits).String()
	})
}

// GenV6Addr draws the CIDR of a dhcpv6.AddressPool: small (fewer than 1000 addresses) or large (capped at 1000).
func GenV6Addr() *rapid.Generator[Geom] {
	return rapid.Custom(func(t *rapid.T) Geom {
		pl := rapid.SampledFrom([]int{127, 126, 126, 126, 125, 125, 125, 124, 122, 120, 112, 64, 48}).Draw(t, "poolLen")
		b := make(net.IP, 16)
		b[0], b[1], b[2], b[3] = 0x20, 0x01, 0x0d, 0xb8
		for i := 4; i < 16; i++ {
			b[i] = byte(rapid.IntRange(0, 255).Draw(t, "b"))
		}
		n := &net.IPNet{IP: b.Mask(net.CIDRMask(pl, 128)), Mask: net.CIDRMask(pl, 128)}
		c := "v6addr-capped"
		if pl >= 120 {
			c = "v6addr-small"
		}
		return Geom{n.String(), 128, c}
	})
}

// GenV6PD draws (pool, delegation length) for dhcpv6.PrefixPool; delegation strictly longer than the pool.
func GenV6PD() *rapid.Generator[Geom] {
	return rapid.Custom(func(t *rapid.T) Geom {
		pair := rapid.SampledFrom([][2]int{{48, 56}, {48, 60}, {48, 64}, {56, 64}, {56, 60}, {60, 64}, {62, 64}, {62, 64}, {63, 64}, {63, 64}, {61, 64}, {61, 64}, {58, 60}, {52, 56}, {44, 56}}).Draw(t, "pair")
		b := make(net.IP, 16)
		b[0], b[1] = 0x20, 0x01
		for i := 2; i < 16; i++ {
			b[i] = byte(rapid.IntRange(0, 255).Draw(t, "b"))
		}
		n := &net.IPNet{IP: b.Mask(net.CIDRMask(pair[0], 128)), Mask: net.CIDRMask(pair[0], 128)}
		c := "pd-large"
		if pair[1]-pair[0] <= 4 {
			c = "pd-small"
		}
		return Geom{n.String(), pair[1], c}
	})
}

// DHCP4Cfg is a generated dhcp.Pool configuration.
type DHCP4Cfg struct {
	V4Net
	ReservedStart, ReservedEnd int
}

// GenDHCP4 draws a network, a gateway and reserved ranges that leave at least one usable address
// (95 %) or reserve the whole pool (5 %: an empty pool must simply report exhaustion).
func GenDHCP4() *rapid.Generator[DHCP4Cfg] {
	return rapid.Custom(func(t *rapid.T) DHCP4Cfg {
		n := GenV4Net().Draw(t, "net")
		ones, _ := mustCIDR(n.CIDR).Mask.Size()
		hosts := (1 << uint(32-ones)) - 2
		if rapid.IntRange(0, 19).Draw(t, "overReserve") == 0 {
			return DHCP4Cfg{n, hosts, 1}
		}
		rs := rapid.IntRange(0, min(3, hosts-1)).Draw(t, "reservedStart")
		re := rapid.IntRange(0, min(3, hosts-1-rs)).Draw(t, "reservedEnd")
		return DHCP4Cfg{n, rs, re}
	})
}
