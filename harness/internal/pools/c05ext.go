package pools

// Additions for C05 (leak / miscount through the secondary mutators): further views of an implementation's own
// counters, and access to the real dhcp.Pool behind the adapter for the server-discipline driver (D4Server).

import (
	"encoding/json"
	"fmt"
	"net/http"
	"net/http/httptest"

	"github.com/codelaboratoryltd/bng/pkg/dhcp"
	"github.com/codelaboratoryltd/bng/pkg/pool"
)

type (
	// StatsExter reports the remaining counters of an implementation's statistics: the number of free units and
	// (hasUnavailable) the number of units it records as taken out of service.
	StatsExter interface {
		StatsExt() (available, unavailable uint64, hasUnavailable bool)
	}
	// QuarantineRecorder marks adapters whose implementation keeps its own record of the values taken out of
	// service (Snapshot.Quarantine is then authoritative even when empty).
	QuarantineRecorder interface{ RecordsQuarantine() }
	// AltStatser reports the implementation's statistics through its second entry point (peer HTTP API).
	AltStatser interface {
		AltStats() (allocated, total, available uint64, err error)
	}
)

// Raw exposes the real pool (for the server-discipline driver, which needs Claim/Reassign/Decline/ReleaseClient).
func (d *dhcp4Pool) Raw() *dhcp.Pool { return d.p }

// RecordsQuarantine: dhcp.Pool keeps the declined addresses in its `unavailable` set.
func (d *dhcp4Pool) RecordsQuarantine() {}

// StatsExt: dhcp.PoolStats.Available / Unavailable.
func (d *dhcp4Pool) StatsExt() (uint64, uint64, bool) {
	s := d.p.Stats()
	return uint64(s.Available), uint64(s.Unavailable), true
}

// StatsExt: pool.PoolStats.Available (the peer pool has no quarantine).
func (p *peerPool) StatsExt() (uint64, uint64, bool) {
	s := p.p.Stats()
	return uint64(s.Available), 0, false
}

// AltStats is GET /pool/status on this node's peer API.
func (p *peerPool) AltStats() (allocated, total, available uint64, err error) {
	rec := httptest.NewRecorder()
	p.mux().ServeHTTP(rec, httptest.NewRequest(http.MethodGet, "/pool/status", nil))
	if rec.Code != http.StatusOK {
		return 0, 0, 0, fmt.Errorf("peer API: status %d", rec.Code)
	}
	var s pool.PoolStats
	if err := json.Unmarshal(rec.Body.Bytes(), &s); err != nil {
		return 0, 0, 0, fmt.Errorf("peer API: undecodable reply: %v", err)
	}
	return uint64(s.Allocated), uint64(s.Total), uint64(s.Available), nil
}
