// Package pools gives every address/prefix pool implementation of the gateway one
// uniform face so that the C01 (uniqueness) and C05 (no leak / no miscount)
// machines can drive all of them with the same generated histories.
//
// Adapters only translate calls; they never consult the implementation's
// internal tables.  The number of usable units of a pool (Info.Usable) is
// computed here from each implementation's documented behaviour, not read back
// from the implementation.
package pools

import (
	"errors"
	"fmt"
	"math/big"
	"net"
	"strconv"
	"strings"
)

// ErrExhausted is returned by adapters whose implementation signals exhaustion with a nil value.
var ErrExhausted = errors.New("pool exhausted")

// ErrNotHeld is returned by adapters' Release when the adapter has nothing to release for the subscriber
// (APIs that release by value need the value the subscriber was handed).
var ErrNotHeld = errors.New("subscriber holds nothing")

// Pool is the uniform face of one pool instance.
type Pool interface {
	// Alloc asks for an assignment for sub and returns the canonical value string.
	Alloc(sub string) (string, error)
	// Release ends sub's assignment through the API the implementation's callers use.
	Release(sub string) error
	// Lookup returns what the implementation itself reports for sub ("" = nothing); ok=false: no such API.
	Lookup(sub string) (val string, ok bool)
	// Reverse returns the subscriber the implementation reports for val; ok=false: no such API.
	Reverse(val string) (sub string, ok bool)
	// Close stops anything the instance started.
	Close()
}

// Optional capabilities.
type (
	// Renewer extends a lease.
	Renewer interface{ Renew(sub string) error }
	// Epocher advances the lease epoch and returns the new epoch.
	Epocher interface {
		Advance() uint64
		Epoch() uint64
	}
	// Reloader restarts the pool from its persisted/serialised state. perm orders store enumeration.
	Reloader interface{ Reload(perm uint64) error }
	// Statser reports (allocated, total, utilisation). util is NaN-free only if hasUtil.
	Statser interface {
		Stats() (allocated, total uint64, util float64, hasUtil bool)
	}
	// Indexer maps a unit index to the canonical value string (for value-targeted ops).
	Indexer interface{ ValueAt(i int) string }
	// ValueReleaser releases by value regardless of subscriber.
	ValueReleaser interface{ ReleaseValue(val string) error }
	// Specific allocates a caller-chosen value.
	Specific interface{ AllocSpecific(sub, val string) error }
	// SetAllocer forcibly applies a stored record (replay from the authoritative store).
	SetAllocer interface{ SetAllocation(sub, val string) error }
	// Remote applies a change written by another node to the shared store and delivers the watch event.
	Remote interface {
		RemoteSet(sub, val string)
		RemoteDelete(sub string)
	}
	// Faulty exposes the store-call counter and single-fault injection.
	Faulty interface {
		StoreCalls() int
		LastFailedCall() string
	}
	// Decliner ends sub's assignment the way a DHCP Decline does (the value is not returned to the free list).
	Decliner interface{ Decline(sub string) }
	// AltEntry drives the implementation's second entry point for the same request (the peer HTTP API of
	// pool.PeerPool, DistributedAllocator.AllocateWithMAC, PoolAllocator.AllocateWithOptions as the DHCPv6
	// server calls it, LocalAllocator.Allocate without a MAC).
	AltEntry interface {
		AllocAlt(sub string) (string, error)
		ReleaseAlt(sub string) error
	}
	// Snapshotter returns a copy of a free-list pool's own tables (through the `verif` accessors).
	Snapshotter interface {
		Snapshot() Snapshot
		// Key is the key under which sub appears in Snapshot.Allocated (MAC, DUID, session id).
		Key(sub string) string
	}
)

// Snapshot is a copy of a free-list pool's state: who holds what, and what is free.
type Snapshot struct {
	Allocated  map[string]string // implementation key -> value
	Available  []string          // free list in allocation order
	Reverse    map[string]string // value -> key (nil if the implementation keeps no reverse index)
	Quarantine []string          // values taken out of service (declined), if the implementation records them
}

// Info describes one generated pool configuration.
type Info struct {
	Impl   string     // signature component, e.g. "bitmap", "dist-lease"
	Class  string     // geometry class label
	Desc   string     // human-readable configuration
	Net    *net.IPNet // configured range
	Unit   int        // prefix length of assigned values; -1 = bare addresses
	Usable uint64     // documented number of assignable units (saturating)
	// UsableMax (0 = same as Usable) is the largest number of distinct values the implementation may hand
	// out without contradicting C05 (which forbids leaks and miscounts, not extra values).
	UsableMax uint64
	Huge      bool   // >= 2^64 units
	Grace     uint64 // effective grace (epoch implementations), 0 otherwise
	Epochal   bool   // has lease expiry by epoch
	Bubble    bool   // instance starts timers/goroutines: run inside a synctest bubble
	// UtilOf gives the documented utilisation figure for (allocated,total); nil = none reported.
	UtilOf func(allocated, total uint64) float64
}

// Factory creates fresh instances of one generated configuration.
// failAt > 0 makes store call number failAt fail (only for store-backed implementations).
type Factory struct {
	Info
	New func(failAt int) Pool
}

// IsExhausted reports whether err is the implementation's way of saying "no free unit".
func IsExhausted(err error) bool {
	if err == nil {
		return false
	}
	return errors.Is(err, ErrExhausted) || strings.Contains(err.Error(), "exhausted")
}

// SubNum maps subscriber names ("s3", "f17", "g2") to a stable small number: kind*65536+n.
func SubNum(sub string) (kind byte, n int) {
	if sub == "" {
		return 0, 0
	}
	kind = sub[0]
	n, _ = strconv.Atoi(sub[1:])
	return kind, n
}

// MacOf gives the MAC address a subscriber name stands for.
func MacOf(sub string) net.HardwareAddr {
	k, n := SubNum(sub)
	return net.HardwareAddr{0x02, 0x00, k, byte(n >> 16), byte(n >> 8), byte(n)}
}

// DUIDOf gives the DHCPv6 client DUID string a subscriber name stands for.
func DUIDOf(sub string) string { return "00030001" + strings.ReplaceAll(MacOf(sub).String(), ":", "") }

// RangeCheck validates that val (CIDR or bare IP) lies inside pool with the unit length (unit<0: bare address).
func RangeCheck(pool *net.IPNet, unit int, val string) error {
	var ip net.IP
	ones := -1
	if strings.Contains(val, "/") {
		i, n, err := net.ParseCIDR(val)
		if err != nil {
			return fmt.Errorf("unparsable value %q", val)
		}
		ones, _ = n.Mask.Size()
		if !i.Equal(n.IP) {
			return fmt.Errorf("value %s not aligned to its own prefix length", val)
		}
		ip = i
	} else {
		ip = net.ParseIP(val)
		if ip == nil {
			return fmt.Errorf("unparsable value %q", val)
		}
	}
	if !pool.Contains(ip) {
		return fmt.Errorf("value %s outside pool %s", val, pool)
	}
	if ones >= 0 && unit >= 0 && ones != unit {
		return fmt.Errorf("value %s has prefix length /%d, pool allocates /%d", val, ones, unit)
	}
	if ones < 0 && unit >= 0 {
		return fmt.Errorf("value %s is a bare address, pool allocates /%d prefixes", val, unit)
	}
	if (ip.To4() == nil) != (pool.IP.To4() == nil) {
		return fmt.Errorf("value %s has wrong address family for pool %s", val, pool)
	}
	return nil
}

// addrAt returns base + idx*2^(bits-unit) as an IP of the pool's family.
func addrAt(pool *net.IPNet, unit int, idx int) net.IP {
	_, bits := pool.Mask.Size()
	if unit < 0 {
		unit = bits
	}
	off := new(big.Int).Lsh(big.NewInt(int64(idx)), uint(bits-unit))
	base := new(big.Int).SetBytes(pool.IP)
	raw := base.Add(base, off).Bytes()
	ip := make(net.IP, bits/8)
	if len(raw) > len(ip) {
		raw = raw[len(raw)-len(ip):]
	}
	copy(ip[len(ip)-len(raw):], raw)
	return ip
}

// unitsOf returns 2^(unit-poolLen) saturating at MaxUint64, and whether it is >= 2^64.
func unitsOf(pool *net.IPNet, unit int) (uint64, bool) {
	ones, bits := pool.Mask.Size()
	if unit < 0 {
		unit = bits
	}
	d := unit - ones
	if d >= 64 {
		return ^uint64(0), true
	}
	return uint64(1) << uint(d), false
}

func mustCIDR(s string) *net.IPNet {
	_, n, err := net.ParseCIDR(s)
	if err != nil {
		panic(err)
	}
	return n
}
