package bpfnative

import (
	"bytes"
	"encoding/binary"
	"os"
	"testing"
	"time"

	"github.com/cilium/ebpf"
)

func start(t *testing.T) *Client {
	if os.Getenv("VERIF_BUILD") == "" {
		t.Skip("VERIF_BUILD not set")
	}
	c, err := Start()
	if err != nil {
		t.Fatal(err)
	}
	t.Cleanup(func() { c.Close() })
	return c
}

func TestSelfMetadata(t *testing.T) {
	c := start(t)
	for _, m := range c.Maps() {
		t.Logf("map %-24s src=%-14s type=%2d key=%3d value=%3d max=%d flags=%d", m.Name, m.Src, m.Type, m.KeySize, m.ValueSize, m.MaxEntries, m.Flags)
	}
	for _, p := range c.Progs() {
		t.Logf("prog %s sec=%s src=%s kind=%d", p.Name, p.Sec, p.Src, p.Kind)
	}
	for i, s := range c.Sites() {
		t.Logf("site %d %s:%d %s", i, s.File, s.Line, s.Map)
	}
	t.Logf("calls %v", c.Calls())
	if len(c.Maps()) != 26 || len(c.Progs()) != 7 {
		t.Fatalf("expected 26 maps / 7 programs, got %d / %d", len(c.Maps()), len(c.Progs()))
	}
}

func TestSelfMapsAndLPM(t *testing.T) {
	c := start(t)
	k := make([]byte, 8)
	v := make([]byte, 24)
	binary.LittleEndian.PutUint64(k, 0x0000aabbccddeeff)
	v[0] = 7
	if err := c.LoadMap("subscriber_bindings", k, v); err != nil {
		t.Fatal(err)
	}
	es, err := c.DumpMap("subscriber_bindings")
	if err != nil || len(es) != 1 || !bytes.Equal(es[0].Key, k) || !bytes.Equal(es[0].Value, v) {
		t.Fatalf("dump: %v %v", es, err)
	}
	if err := c.LoadMap("subscriber_bindings", k[:4], v); err == nil {
		t.Fatal("size mismatch accepted")
	}
	// LPM: 10.0.0.0/8 and 10.1.0.0/16
	put := func(plen uint32, ip [4]byte, val byte) {
		key := make([]byte, 8)
		binary.LittleEndian.PutUint32(key, plen)
		copy(key[4:], ip[:])
		if err := c.LoadMap("allowed_ranges_v4", key, []byte{val}); err != nil {
			t.Fatal(err)
		}
	}
	put(8, [4]byte{10, 0, 0, 0}, 1)
	put(16, [4]byte{10, 1, 0, 0}, 2)
	ip := func(a, b, c, d byte) uint64 { return uint64(binary.LittleEndian.Uint32([]byte{a, b, c, d})) }
	for _, tc := range []struct {
		ip   uint64
		want uint64
	}{{ip(10, 1, 2, 3), 1}, {ip(10, 2, 2, 3), 1}, {ip(11, 1, 2, 3), 0}} {
		r, err := c.Call("antispoof.ip_in_allowed_range", [4]uint64{tc.ip}, nil, nil, EndFlush)
		if err != nil || r.Fault.Faulted() || r.Ret != tc.want {
			t.Fatalf("lpm %x: %+v %v", tc.ip, r, err)
		}
	}
	if err := c.ClearMaps(); err != nil {
		t.Fatal(err)
	}
	es, _ = c.DumpMap("subscriber_bindings")
	if len(es) != 0 {
		t.Fatal("clear did not clear")
	}
}

func TestSelfCalls(t *testing.T) {
	c := start(t)
	r, err := c.Call("dhcp_fastpath.mac_to_u64", [4]uint64{}, []byte{1, 2, 3, 4, 5, 6}, nil, EndFlush)
	if err != nil || r.Ret != 0x010203040506 || r.Fault.Faulted() {
		t.Fatalf("mac_to_u64: %+v %v", r, err)
	}
	// 5-byte buffer: reading mac[5] must hit the guard page
	r, err = c.Call("dhcp_fastpath.mac_to_u64", [4]uint64{}, []byte{1, 2, 3, 4, 5}, nil, EndFlush)
	if err != nil || r.Fault.Kind != FaultSEGV || r.Fault.Where != WhereAfter || r.Fault.Rel != 5 {
		t.Fatalf("expected guard fault at +5: %+v %v", r, err)
	}
	// token bucket: rate 8000 bit/s = 1000 B/s, burst 1500, 1 s elapsed
	tb := make([]byte, 32)
	binary.LittleEndian.PutUint64(tb[0:], 0)
	binary.LittleEndian.PutUint64(tb[8:], 1_000_000_000)
	binary.LittleEndian.PutUint64(tb[16:], 8000)
	binary.LittleEndian.PutUint32(tb[24:], 1500)
	c.SetClock(2_000_000_000)
	r, err = c.Call("qos_ratelimit.token_bucket_check", [4]uint64{600}, tb, nil, EndFlush)
	if err != nil || r.Ret != 1 || binary.LittleEndian.Uint64(r.Buf) != 400 {
		t.Fatalf("token bucket: %+v %v", r, err)
	}
}

func TestSelfRunAndUBSanAndRestart(t *testing.T) {
	c := start(t)
	fr := make([]byte, 60)
	fr[12], fr[13] = 0x08, 0x00
	fr[14] = 0x45
	for _, p := range c.Progs() {
		for _, pl := range []Placement{EndFlush, StartFlush} {
			o := DefaultOpts()
			o.Placement = pl
			res, err := c.Run(p.Name, fr, o)
			if err != nil || res.Fault.Faulted() || !bytes.Equal(res.Out, fr) {
				t.Fatalf("%s %v: %+v %v", p.Name, pl, res, err)
			}
		}
	}
	// 0-length and 13-byte frames
	for _, n := range []int{0, 1, 13, 14, 33, 34} {
		res, err := c.Run("antispoof_ingress", fr[:n], DefaultOpts())
		if err != nil || res.Fault.Faulted() || res.Verdict != TCActOK {
			t.Fatalf("len %d: %+v %v", n, res, err)
		}
	}
	// kill the runner behind the client's back: next Run reports FaultDied, the one after works, state replayed
	k := make([]byte, 4)
	v := make([]byte, 32)
	v[16] = 1
	c.LoadMap("qos_egress", k, v)
	c.Sync()
	c.cmd.Process.Kill()
	time.Sleep(50 * time.Millisecond)
	res, err := c.Run("qos_egress_prog", fr, DefaultOpts())
	if err != nil || res.Fault.Kind != FaultDied {
		t.Fatalf("expected FaultDied: %+v %v", res, err)
	}
	res, err = c.Run("qos_egress_prog", fr, DefaultOpts())
	if err != nil || res.Fault.Faulted() {
		t.Fatalf("after restart: %+v %v", res, err)
	}
	es, _ := c.DumpMap("qos_egress")
	if len(es) != 1 {
		t.Fatalf("shadow state not replayed: %v", es)
	}
}

func TestSelfThroughput(t *testing.T) {
	c := start(t)
	fr := make([]byte, 342)
	fr[12], fr[13] = 0x08, 0x00
	fr[14] = 0x45
	fr[23] = 17
	n := 20000
	t0 := time.Now()
	for i := 0; i < n; i++ {
		if _, err := c.Run("dhcp_fastpath_prog", fr, DefaultOpts()); err != nil {
			t.Fatal(err)
		}
	}
	d := time.Since(t0)
	t.Logf("sync Run: %.0f/s", float64(n)/d.Seconds())
	reqs := make([]RunReq, 1000)
	for i := range reqs {
		reqs[i] = RunReq{"dhcp_fastpath_prog", fr, DefaultOpts()}
	}
	t0 = time.Now()
	for i := 0; i < 50; i++ {
		if _, err := c.RunBatch(reqs); err != nil {
			t.Fatal(err)
		}
	}
	d = time.Since(t0)
	t.Logf("RunBatch: %.0f/s", 50000/d.Seconds())
}

func TestSelfCopyKernelMap(t *testing.T) {
	c := start(t)
	m, err := c.NewKernelMap("qos_egress", 64)
	if err != nil {
		t.Skipf("kernel maps unavailable: %v", err)
	}
	defer m.Close()
	for i := uint32(1); i <= 5; i++ {
		v := make([]byte, 32)
		v[0] = byte(i)
		if err := m.Put(i, v); err != nil {
			t.Fatal(err)
		}
	}
	n, err := c.CopyKernelMap(m, "qos_egress")
	if err != nil || n != 5 {
		t.Fatalf("copy: %d %v", n, err)
	}
	es, err := c.DumpMap("qos_egress")
	if err != nil || len(es) != 5 {
		t.Fatalf("dump: %v %v", es, err)
	}
	// per-cpu array and LPM
	pm, err := c.NewKernelMap("qos_stats_map", 0)
	if err != nil {
		t.Fatal(err)
	}
	defer pm.Close()
	if n, err := c.CopyKernelMap(pm, "qos_stats_map"); err != nil || n != 1 {
		t.Fatalf("percpu copy: %d %v", n, err)
	}
	lm, err := c.NewKernelMap("allowed_ranges_v4", 0)
	if err != nil {
		t.Fatal(err)
	}
	defer lm.Close()
	if err := lm.Put([]byte{8, 0, 0, 0, 10, 0, 0, 0}, []byte{1}); err != nil {
		t.Fatal(err)
	}
	if n, err := c.CopyKernelMap(lm, "allowed_ranges_v4"); err != nil || n != 1 {
		t.Fatalf("lpm copy: %d %v", n, err)
	}
	wrong, _ := ebpf.NewMap(&ebpf.MapSpec{Type: ebpf.Hash, KeySize: 4, ValueSize: 28, MaxEntries: 4})
	if wrong != nil {
		defer wrong.Close()
		if _, err := c.CopyKernelMap(wrong, "qos_egress"); err == nil {
			t.Fatal("geometry mismatch accepted")
		}
	}
}
