package bpfnative

import (
	"fmt"

	"github.com/cilium/ebpf"
)

// GeometryError reports that a kernel map does not have the key/value size the C source declares.
type GeometryError struct {
	Map                      string
	KernelKey, KernelValue   uint32
	DeclaredKey, DeclaredVal uint32
}

func (e *GeometryError) Error() string {
	return fmt.Sprintf("bpfnative: kernel map for %q has key %d / value %d bytes, the C declaration has %d / %d",
		e.Map, e.KernelKey, e.KernelValue, e.DeclaredKey, e.DeclaredVal)
}

// NewKernelMap creates a real kernel map with the geometry the C source declares for name
// (max_entries capped at maxEntries if > 0, so that tests do not pre-allocate millions of slots).
func (c *Client) NewKernelMap(name string, maxEntries uint32) (*ebpf.Map, error) {
	mi, ok := c.Map(name)
	if !ok {
		return nil, fmt.Errorf("bpfnative: unknown map %q", name)
	}
	spec := &ebpf.MapSpec{Name: trunc15(name), Type: ebpf.MapType(mi.Type), KeySize: mi.KeySize, ValueSize: mi.ValueSize,
		MaxEntries: mi.MaxEntries, Flags: mi.Flags}
	if maxEntries > 0 && spec.MaxEntries > maxEntries {
		spec.MaxEntries = maxEntries
	}
	switch spec.Type {
	case ebpf.PerfEventArray:
		spec.KeySize, spec.ValueSize = 4, 4
		if spec.MaxEntries == 0 {
			spec.MaxEntries = 1
		}
	case ebpf.RingBuf:
		spec.KeySize, spec.ValueSize = 0, 0
	}
	return ebpf.NewMap(spec)
}

func trunc15(s string) string {
	if len(s) > 15 {
		return s[:15]
	}
	return s
}

// CopyKernelMap iterates a real kernel map as raw bytes and loads every entry into the runner's
// map `name` (which is cleared first).  Per-CPU maps: the value of CPU 0 is taken.  Returns the
// number of entries copied.  A size disagreement between the kernel map and the C declaration is
// returned as *GeometryError.
func (c *Client) CopyKernelMap(m *ebpf.Map, name string) (int, error) {
	mi, ok := c.Map(name)
	if !ok {
		return 0, fmt.Errorf("bpfnative: unknown map %q", name)
	}
	if m.KeySize() != mi.KeySize || m.ValueSize() != mi.ValueSize {
		return 0, &GeometryError{Map: name, KernelKey: m.KeySize(), KernelValue: m.ValueSize(), DeclaredKey: mi.KeySize, DeclaredVal: mi.ValueSize}
	}
	if err := c.ClearMaps(name); err != nil {
		return 0, err
	}
	n := 0
	var cur []byte
	limit := int(m.MaxEntries()) + 1
	for i := 0; i <= limit; i++ {
		var next []byte
		var err error
		if cur == nil {
			next, err = m.NextKeyBytes(nil)
		} else {
			next, err = m.NextKeyBytes(cur)
		}
		if err != nil {
			return n, fmt.Errorf("bpfnative: iterate kernel map %q: %w", name, err)
		}
		if next == nil {
			break
		}
		cur = next
		val, err := m.LookupBytes(cur)
		if err != nil {
			return n, fmt.Errorf("bpfnative: lookup in kernel map %q: %w", name, err)
		}
		if val == nil { // deleted concurrently
			continue
		}
		if err := c.LoadMap(name, cur, val[:mi.ValueSize]); err != nil {
			return n, err
		}
		n++
	}
	return n, nil
}
