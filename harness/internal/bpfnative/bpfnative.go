// Package bpfnative is the client for the native BPF runner (/verif/native):
// the XDP/TC programs of /repo/bpf/*.c compiled for x86-64 with shimmed maps
// and helpers, executed in a separate process on frames placed flush against
// PROT_NONE guard pages.  No cgo; the runner speaks a length-prefixed binary
// protocol on stdin/stdout.  See /verif/native/README.md.
//
// A Client is not safe for concurrent use; start one Client (= one runner
// process) per goroutine / test process.
package bpfnative

import (
	"bufio"
	"bytes"
	"encoding/binary"
	"errors"
	"fmt"
	"io"
	"os"
	"os/exec"
	"path/filepath"
	"strings"
	"sync"
)

// Placement of the frame (or CALL buffer) relative to the guard page.
type Placement uint8

const (
	EndFlush   Placement = 0 // last byte of the frame is the last byte before a PROT_NONE page
	StartFlush Placement = 1 // first byte of the frame is the first byte after a PROT_NONE page
)

func (p Placement) String() string {
	if p == EndFlush {
		return "end-flush"
	}
	return "start-flush"
}

// Fault kinds reported by the runner.
const (
	FaultNone    = 0
	FaultSEGV    = 1 // access to a guard page / retired mapping / wild address
	FaultBUS     = 2
	FaultTimeout = 3 // program did not return within the watchdog (0.1-0.2 s of CPU time)
	FaultCanary  = 4 // bytes next to the frame on the side without a guard page were modified
	FaultFPE     = 5
	FaultILL     = 6
	FaultUBSan   = 7 // UndefinedBehaviorSanitizer report (Msg holds the report)
	FaultDied    = 8 // runner process died during the command (client restarted it)
)

// Where a faulting address lies relative to the packet.
const (
	WhereNone   = 0
	WhereBefore = 1 // before the packet start (same slot)
	WhereAfter  = 2 // at/after the packet end (same slot)
	WhereStale  = 3 // inside a mapping retired by adjust_tail/adjust_head/skb_store_bytes... (stale packet pointer)
	WhereNull   = 4
	WhereWild   = 5
)

var faultNames = map[int]string{0: "none", 1: "SIGSEGV", 2: "SIGBUS", 3: "timeout", 4: "canary", 5: "SIGFPE", 6: "SIGILL", 7: "ubsan", 8: "runner-died"}
var whereNames = map[int]string{0: "", 1: "before-start", 2: "past-end", 3: "stale-pointer", 4: "null", 5: "wild"}

// Fault describes an abnormal end of a RUN or CALL.
type Fault struct {
	Kind  int
	Addr  uint64 // faulting address
	Rel   int64  // Addr - packet start at the time of the fault
	Where int
	Msg   string // UBSan report or runner stderr
}

func (f Fault) Faulted() bool { return f.Kind != FaultNone }
func (f Fault) String() string {
	if f.Kind == FaultNone {
		return "no fault"
	}
	s := faultNames[f.Kind]
	if f.Kind == FaultSEGV || f.Kind == FaultBUS || f.Kind == FaultCanary {
		s += fmt.Sprintf(" %s addr=%#x (packet start%+d)", whereNames[f.Where], f.Addr, f.Rel)
	}
	if f.Msg != "" {
		s += ": " + strings.TrimSpace(f.Msg)
	}
	return s
}

// XDP and TC verdict values.
const (
	XDPAborted  = 0
	XDPDrop     = 1
	XDPPass     = 2
	XDPTx       = 3
	XDPRedirect = 4

	TCActUnspec   = -1
	TCActOK       = 0
	TCActShot     = 2
	TCActRedirect = 7
)

// Program kinds.
const (
	KindXDP = 1
	KindTC  = 2
)

// BPF map types (subset used by the repository).
const (
	MapTypeHash           = 1
	MapTypeArray          = 2
	MapTypePerfEventArray = 4
	MapTypePerCPUHash     = 5
	MapTypePerCPUArray    = 6
	MapTypeLRUHash        = 9
	MapTypeLPMTrie        = 11
	MapTypeRingbuf        = 27
)

// MapInfo is a map as declared in the C source (sizes computed by the C compiler).
type MapInfo struct {
	Name       string
	Src        string // bpf source stem: dhcp_fastpath, antispoof, qos_ratelimit, nat44
	Type       uint32
	KeySize    uint32
	ValueSize  uint32
	MaxEntries uint32
	Flags      uint32
	Count      uint32 // entries currently held by the runner
}

// ProgInfo is a SEC("xdp")/SEC("tc*") entry point.
type ProgInfo struct {
	Name string
	Sec  string
	Src  string
	Kind int
}

// Site is one bpf_map_lookup_elem call site; its index is the bit number in Result.LookupSites.
type Site struct {
	File string
	Line int
	Map  string
}

// Entry is one raw map entry (or, for sinks, Key empty and Value the emitted event).
type Entry struct {
	Key, Value []byte
}

// RunOpts are the optional parameters of Run.
type RunOpts struct {
	Placement      Placement
	Ifindex        uint32 // skb->ifindex / xdp ingress_ifindex
	IngressIfindex uint32
	RxQueue        uint32
	Protocol       uint32 // skb->protocol as the program reads it (network-order u16); 0 = taken from frame bytes 12..13
	Mark           uint32
	Priority       uint32
	SkbLen         uint32 // skb->len override (0 = len(frame)); lets C19 run 64 KiB "packets" with short linear data
	Tailroom       int32  // bytes bpf_xdp_adjust_tail may grow; <0 = page model (4096-256-320-len); 0 = growth always fails
	Headroom       int32  // XDP headroom; <0 = 256
	Seed           uint64 // bpf_get_prandom_u32 stream
}

// DefaultOpts: end-flush, kernel-like head/tail room.
func DefaultOpts() RunOpts { return RunOpts{Tailroom: -1, Headroom: -1, Ifindex: 1} }

// Result of one RUN.
type Result struct {
	Verdict     int32
	Out         []byte // frame after the run (new length after adjust_tail/adjust_head)
	Fault       Fault
	LookupSites []byte // bitmap over Client.Sites(): bpf_map_lookup_elem call sites executed
	NumLookups  uint32
	NumHelpers  uint32
	NumReloc    uint32 // how many times the packet was moved (adjust_tail, store_bytes, ...)
	RingbufLeak uint32 // ring buffer reservations neither submitted nor discarded
	// writable __sk_buff fields after the run (TC only)
	Mark, Priority, TCIndex, TCClassID, QueueMapping uint32
	CB                                               [5]uint32
	Redirected                                       uint8 // 1 bpf_redirect, 2 bpf_clone_redirect
	RedirectIfindex                                  uint32
	RedirectFlags                                    uint64
}

// SiteHit reports whether lookup site i was executed.
func (r *Result) SiteHit(i int) bool {
	return i >= 0 && i/8 < len(r.LookupSites) && r.LookupSites[i/8]&(1<<(uint(i)%8)) != 0
}

// CallResult of one CALL.
type CallResult struct {
	Ret   uint64
	Fault Fault
	Buf   []byte // the guarded input buffer after the call
	Out   []byte // helper-specific extra output
}

// RunReq is one element of RunBatch.
type RunReq struct {
	Prog  string
	Frame []byte
	Opts  RunOpts
}

const (
	opHello = iota + 1
	opMapInfo
	opProgs
	opSites
	opCalls
	opLoad
	opDelete
	opClear
	opDump
	opClock
	opRun
	opCall
	opQuit
)

// ErrRunnerDied is returned (wrapped) when the runner process disappeared; the client has already
// started a fresh one and replayed the map/clock state it was given since the last full ClearMaps.
var ErrRunnerDied = errors.New("bpfnative: runner process died")

// Client drives one runner process.
type Client struct {
	path   string
	cmd    *exec.Cmd
	in     *bufio.Writer
	inRaw  io.WriteCloser
	out    *bufio.Reader
	stderr *lockedBuf

	pendingAcks int
	deferredErr error
	shadow      [][]byte // state-changing requests since the last full CLEAR (replayed after a restart)
	shadowOff   bool

	maps     []MapInfo
	mapIdx   map[string]int
	progs    []ProgInfo
	sites    []Site
	calls    []string
	MaxFrame int
	Restarts int

	wbuf []byte
}

type lockedBuf struct {
	mu sync.Mutex
	b  bytes.Buffer
}

func (l *lockedBuf) Write(p []byte) (int, error) {
	l.mu.Lock()
	defer l.mu.Unlock()
	if l.b.Len() < 1<<16 {
		l.b.Write(p)
	}
	return len(p), nil
}
func (l *lockedBuf) take() string {
	l.mu.Lock()
	defer l.mu.Unlock()
	s := l.b.String()
	l.b.Reset()
	return s
}

// BinaryPath returns $VERIF_BUILD/bpfrunner.
func BinaryPath() string {
	return filepath.Join(os.Getenv("VERIF_BUILD"), "bpfrunner")
}

// Start launches the runner built by native/build.sh into $VERIF_BUILD.
func Start() (*Client, error) { return StartAt(BinaryPath()) }

// StartAt launches the runner binary at path.
func StartAt(path string) (*Client, error) {
	c := &Client{path: path}
	if err := c.spawn(); err != nil {
		return nil, err
	}
	return c, nil
}

func (c *Client) spawn() error {
	if _, err := os.Stat(c.path); err != nil {
		return fmt.Errorf("bpfnative: runner binary missing (props.d needs \"native\": true): %w", err)
	}
	cmd := exec.Command(c.path)
	inp, err := cmd.StdinPipe()
	if err != nil {
		return err
	}
	outp, err := cmd.StdoutPipe()
	if err != nil {
		return err
	}
	c.stderr = &lockedBuf{}
	cmd.Stderr = c.stderr
	if err := cmd.Start(); err != nil {
		return err
	}
	c.cmd = cmd
	c.inRaw = inp
	c.in = bufio.NewWriterSize(inp, 1<<16)
	c.out = bufio.NewReaderSize(outp, 1<<16)
	c.pendingAcks = 0
	return c.handshake()
}

func (c *Client) handshake() error {
	body, err := c.roundTrip([]byte{opHello})
	if err != nil {
		return fmt.Errorf("bpfnative: hello: %w", err)
	}
	r := rd{b: body}
	if v := r.u32(); v != 1 {
		return fmt.Errorf("bpfnative: protocol version %d", v)
	}
	r.u32()
	r.u32()
	r.u32()
	r.u32()
	c.MaxFrame = int(r.u32())
	// maps
	body, err = c.roundTrip([]byte{opMapInfo})
	if err != nil {
		return err
	}
	c.maps, c.mapIdx = parseMapInfo(body)
	body, err = c.roundTrip([]byte{opProgs})
	if err != nil {
		return err
	}
	r = rd{b: body}
	n := int(r.u32())
	c.progs = c.progs[:0]
	for i := 0; i < n; i++ {
		p := ProgInfo{Name: r.str(), Sec: r.str(), Src: r.str()}
		p.Kind = int(r.u8())
		c.progs = append(c.progs, p)
	}
	body, err = c.roundTrip([]byte{opSites})
	if err != nil {
		return err
	}
	r = rd{b: body}
	n = int(r.u32())
	c.sites = c.sites[:0]
	for i := 0; i < n; i++ {
		s := Site{File: r.str()}
		s.Line = int(r.u32())
		s.Map = r.str()
		c.sites = append(c.sites, s)
	}
	body, err = c.roundTrip([]byte{opCalls})
	if err != nil {
		return err
	}
	r = rd{b: body}
	n = int(r.u32())
	c.calls = c.calls[:0]
	for i := 0; i < n; i++ {
		c.calls = append(c.calls, r.str())
	}
	return nil
}

func parseMapInfo(body []byte) ([]MapInfo, map[string]int) {
	r := rd{b: body}
	n := int(r.u32())
	ms := make([]MapInfo, 0, n)
	idx := map[string]int{}
	for i := 0; i < n; i++ {
		m := MapInfo{Name: r.str(), Src: r.str()}
		m.Type, m.KeySize, m.ValueSize, m.MaxEntries, m.Flags, m.Count = r.u32(), r.u32(), r.u32(), r.u32(), r.u32(), r.u32()
		idx[m.Name] = len(ms)
		ms = append(ms, m)
	}
	return ms, idx
}

// Close terminates the runner.
func (c *Client) Close() error {
	if c.cmd == nil {
		return nil
	}
	_ = c.send([]byte{opQuit})
	_ = c.in.Flush()
	_ = c.inRaw.Close()
	err := c.cmd.Wait()
	c.cmd = nil
	return err
}

// ---- wire helpers --------------------------------------------------------------------------------

type rd struct {
	b   []byte
	bad bool
}

func (r *rd) take(n int) []byte {
	if n < 0 || len(r.b) < n {
		r.bad = true
		r.b = nil
		return make([]byte, n&0xffff)
	}
	v := r.b[:n]
	r.b = r.b[n:]
	return v
}
func (r *rd) u8() uint8   { return r.take(1)[0] }
func (r *rd) u32() uint32 { return binary.LittleEndian.Uint32(r.take(4)) }
func (r *rd) u64() uint64 { return binary.LittleEndian.Uint64(r.take(8)) }
func (r *rd) bytes() []byte {
	n := int(r.u32())
	if r.bad {
		return nil
	}
	return append([]byte(nil), r.take(n)...)
}
func (r *rd) str() string { n := int(r.u8()); return string(r.take(n)) }

type wr struct{ b []byte }

func (w *wr) u8(v uint8)   { w.b = append(w.b, v) }
func (w *wr) u32(v uint32) { w.b = binary.LittleEndian.AppendUint32(w.b, v) }
func (w *wr) u64(v uint64) { w.b = binary.LittleEndian.AppendUint64(w.b, v) }
func (w *wr) bytes(p []byte) {
	w.u32(uint32(len(p)))
	w.b = append(w.b, p...)
}
func (w *wr) str(s string) {
	if len(s) > 120 {
		s = s[:120]
	}
	w.u8(uint8(len(s)))
	w.b = append(w.b, s...)
}

func (c *Client) send(req []byte) error {
	var h [4]byte
	binary.LittleEndian.PutUint32(h[:], uint32(len(req)))
	if _, err := c.in.Write(h[:]); err != nil {
		return err
	}
	_, err := c.in.Write(req)
	return err
}

func (c *Client) recv() (status uint8, body []byte, err error) {
	var h [4]byte
	if _, err = io.ReadFull(c.out, h[:]); err != nil {
		return 0, nil, err
	}
	n := binary.LittleEndian.Uint32(h[:])
	if n < 1 || n > 256<<20 {
		return 0, nil, fmt.Errorf("bpfnative: bad reply length %d", n)
	}
	buf := make([]byte, n)
	if _, err = io.ReadFull(c.out, buf); err != nil {
		return 0, nil, err
	}
	return buf[0], buf[1:], nil
}

// drainAcks reads the replies of pipelined LOAD/DELETE/CLEAR/CLOCK commands.
func (c *Client) drainAcks() error {
	for c.pendingAcks > 0 {
		st, body, err := c.recv()
		if err != nil {
			return err
		}
		c.pendingAcks--
		if st != 0 && c.deferredErr == nil {
			c.deferredErr = fmt.Errorf("bpfnative: runner rejected a pipelined command: %s", body)
		}
	}
	return nil
}

// roundTrip sends one request, flushes, consumes pending acks and returns the reply body.
// On runner death it restarts the runner and returns an error wrapping ErrRunnerDied.
func (c *Client) roundTrip(req []byte) ([]byte, error) {
	if c.cmd == nil {
		return nil, errors.New("bpfnative: client closed")
	}
	err := c.send(req)
	if err == nil {
		err = c.in.Flush()
	}
	if err == nil {
		err = c.drainAcks()
	}
	var st uint8
	var body []byte
	if err == nil {
		st, body, err = c.recv()
	}
	if err != nil {
		return nil, c.died(err)
	}
	if c.deferredErr != nil {
		e := c.deferredErr
		c.deferredErr = nil
		return nil, e
	}
	if st != 0 {
		return nil, fmt.Errorf("bpfnative: %s", body)
	}
	return body, nil
}

// died reaps the dead runner, starts a new one and replays the shadow state.
func (c *Client) died(cause error) error {
	_ = c.inRaw.Close()
	werr := c.cmd.Wait()
	msg := c.stderr.take()
	c.cmd = nil
	c.Restarts++
	e := fmt.Errorf("%w (%v; wait: %v) stderr: %s", ErrRunnerDied, cause, werr, strings.TrimSpace(msg))
	if err := c.spawn(); err != nil {
		return fmt.Errorf("%v; restart failed: %w", e, err)
	}
	sh := c.shadow
	for _, req := range sh {
		if err := c.send(req); err != nil {
			return fmt.Errorf("%v; replay failed: %w", e, err)
		}
		c.pendingAcks++
	}
	return e
}

func (c *Client) pipelined(req []byte, record bool) error {
	if c.cmd == nil {
		return errors.New("bpfnative: client closed")
	}
	if record && !c.shadowOff {
		c.shadow = append(c.shadow, append([]byte(nil), req...))
		if len(c.shadow) > 1<<16 { // callers that never clear: stop recording rather than grow without bound
			c.shadow = nil
			c.shadowOff = true
		}
	}
	if err := c.send(req); err != nil {
		return c.died(err)
	}
	c.pendingAcks++
	if c.pendingAcks >= 256 { // keep the reply pipe from filling up
		if err := c.in.Flush(); err != nil {
			return c.died(err)
		}
		if err := c.drainAcks(); err != nil {
			return c.died(err)
		}
	}
	return nil
}

// ---- metadata ------------------------------------------------------------------------------------

// Maps returns the maps declared in bpf/*.c (Count as of Start; use MapInfo for fresh counts).
func (c *Client) Maps() []MapInfo { return c.maps }

// Map returns one declared map.
func (c *Client) Map(name string) (MapInfo, bool) {
	i, ok := c.mapIdx[name]
	if !ok {
		return MapInfo{}, false
	}
	return c.maps[i], true
}

// MapInfo asks the runner for the current map list (declared geometry + current entry counts).
func (c *Client) MapInfo() ([]MapInfo, error) {
	body, err := c.roundTrip([]byte{opMapInfo})
	if err != nil {
		return nil, err
	}
	ms, idx := parseMapInfo(body)
	c.maps, c.mapIdx = ms, idx
	return ms, nil
}

// Progs lists the entry points.
func (c *Client) Progs() []ProgInfo { return c.progs }

// Prog returns one entry point.
func (c *Client) Prog(name string) (ProgInfo, bool) {
	for _, p := range c.progs {
		if p.Name == name {
			return p, true
		}
	}
	return ProgInfo{}, false
}

// Sites lists the bpf_map_lookup_elem call sites (index = bit in Result.LookupSites).
func (c *Client) Sites() []Site { return c.sites }

// Calls lists the callable helpers ("<src>.<helper>").
func (c *Client) Calls() []string { return c.calls }

// ---- state ---------------------------------------------------------------------------------------

// LoadMap inserts/overwrites one raw entry (BPF_ANY).  Sizes are checked here against the C
// declaration; the command itself is pipelined (sent with the next synchronous call).
func (c *Client) LoadMap(name string, key, value []byte) error {
	m, ok := c.Map(name)
	if !ok {
		return fmt.Errorf("bpfnative: unknown map %q", name)
	}
	if m.Type == MapTypePerfEventArray || m.Type == MapTypeRingbuf {
		return fmt.Errorf("bpfnative: map %q is an event sink", name)
	}
	if uint32(len(key)) != m.KeySize || uint32(len(value)) != m.ValueSize {
		return fmt.Errorf("bpfnative: map %q is declared with key %d / value %d bytes, got %d / %d", name, m.KeySize, m.ValueSize, len(key), len(value))
	}
	w := wr{b: c.wbuf[:0]}
	w.u8(opLoad)
	w.str(name)
	w.bytes(key)
	w.bytes(value)
	w.u64(0)
	c.wbuf = w.b
	return c.pipelined(w.b, true)
}

// DeleteKey removes one entry (no error if absent).
func (c *Client) DeleteKey(name string, key []byte) error {
	m, ok := c.Map(name)
	if !ok || uint32(len(key)) != m.KeySize {
		return fmt.Errorf("bpfnative: unknown map %q or bad key size", name)
	}
	w := wr{b: c.wbuf[:0]}
	w.u8(opDelete)
	w.str(name)
	w.bytes(key)
	c.wbuf = w.b
	return c.pipelined(w.b, true)
}

// ClearMaps empties the named maps (arrays are zeroed, sinks forget their events); no names = all maps.
func (c *Client) ClearMaps(names ...string) error {
	if len(names) == 0 {
		// keep only the clock in the shadow
		var keep [][]byte
		for _, r := range c.shadow {
			if len(r) > 0 && r[0] == opClock {
				keep = [][]byte{r}
			}
		}
		c.shadow = keep
		c.shadowOff = false
		return c.pipelined([]byte{opClear, 0}, false)
	}
	for _, n := range names {
		if _, ok := c.Map(n); !ok {
			return fmt.Errorf("bpfnative: unknown map %q", n)
		}
		w := wr{}
		w.u8(opClear)
		w.str(n)
		if err := c.pipelined(w.b, true); err != nil {
			return err
		}
	}
	return nil
}

// SetClock sets the value bpf_ktime_get_ns returns.
func (c *Client) SetClock(ns uint64) error { return c.SetClockStep(ns, 0) }

// SetClockStep sets the clock and an increment applied after every bpf_ktime_get_ns call.
func (c *Client) SetClockStep(ns, step uint64) error {
	w := wr{}
	w.u8(opClock)
	w.u64(ns)
	w.u64(step)
	return c.pipelined(w.b, true)
}

// Sync flushes pipelined commands and reports any error they produced.
func (c *Client) Sync() error {
	_, err := c.roundTrip([]byte{opHello})
	return err
}

// DumpMap returns every entry of a map as raw bytes (arrays: all max_entries slots; LPM: insertion order).
func (c *Client) DumpMap(name string) ([]Entry, error) {
	w := wr{}
	w.u8(opDump)
	w.str(name)
	body, err := c.roundTrip(w.b)
	if err != nil {
		return nil, err
	}
	r := rd{b: body}
	n := int(r.u32())
	es := make([]Entry, 0, n)
	for i := 0; i < n && !r.bad; i++ {
		es = append(es, Entry{Key: r.bytes(), Value: r.bytes()})
	}
	if r.bad {
		return nil, errors.New("bpfnative: truncated DUMP reply")
	}
	return es, nil
}

// DumpEvents returns the events a perf-event-array / ringbuf sink recorded since the last clear.
func (c *Client) DumpEvents(name string) ([][]byte, error) {
	es, err := c.DumpMap(name)
	if err != nil {
		return nil, err
	}
	out := make([][]byte, len(es))
	for i, e := range es {
		out[i] = e.Value
	}
	return out, nil
}

// LookupValue returns the value stored under key (exact match, also for LPM maps) or nil.
func (c *Client) LookupValue(name string, key []byte) ([]byte, error) {
	es, err := c.DumpMap(name)
	if err != nil {
		return nil, err
	}
	for _, e := range es {
		if bytes.Equal(e.Key, key) {
			return e.Value, nil
		}
	}
	return nil, nil
}

// ---- execution -----------------------------------------------------------------------------------

func encodeRun(b []byte, prog string, frame []byte, o RunOpts) []byte {
	w := wr{b: b}
	w.u8(opRun)
	w.str(prog)
	w.u8(uint8(o.Placement))
	w.u32(0)
	w.u32(o.Ifindex)
	w.u32(o.IngressIfindex)
	w.u32(o.RxQueue)
	w.u32(o.Protocol)
	w.u32(o.Mark)
	w.u32(o.Priority)
	w.u32(o.SkbLen)
	w.u32(uint32(o.Tailroom))
	w.u32(uint32(o.Headroom))
	w.u64(o.Seed)
	w.bytes(frame)
	return w.b
}

func readFault(r *rd) Fault {
	f := Fault{Kind: int(r.u8())}
	f.Addr = r.u64()
	f.Rel = int64(r.u64())
	f.Where = int(r.u8())
	return f
}

func decodeRun(body []byte) (Result, error) {
	r := rd{b: body}
	var res Result
	res.Verdict = int32(r.u32())
	res.Fault = readFault(&r)
	res.Out = r.bytes()
	res.Mark, res.Priority, res.TCIndex, res.TCClassID, res.QueueMapping = r.u32(), r.u32(), r.u32(), r.u32(), r.u32()
	for i := range res.CB {
		res.CB[i] = r.u32()
	}
	res.Redirected = r.u8()
	res.RedirectIfindex = r.u32()
	res.RedirectFlags = r.u64()
	res.NumLookups, res.NumHelpers, res.NumReloc, res.RingbufLeak = r.u32(), r.u32(), r.u32(), r.u32()
	res.LookupSites = r.bytes()
	res.Fault.Msg = string(r.bytes())
	if r.bad {
		return res, errors.New("bpfnative: truncated RUN reply")
	}
	return res, nil
}

// Run executes one program on one frame.  A runner death is reported as Result.Fault.Kind ==
// FaultDied with err == nil (the client has restarted the runner and replayed LOAD/CLOCK state);
// err is reserved for protocol/usage errors.
func (c *Client) Run(prog string, frame []byte, o RunOpts) (Result, error) {
	if len(frame) > c.MaxFrame {
		return Result{}, fmt.Errorf("bpfnative: frame of %d bytes exceeds the runner limit %d", len(frame), c.MaxFrame)
	}
	c.wbuf = encodeRun(c.wbuf[:0], prog, frame, o)
	body, err := c.roundTrip(c.wbuf)
	if err != nil {
		if errors.Is(err, ErrRunnerDied) {
			return Result{Verdict: -1, Fault: Fault{Kind: FaultDied, Msg: err.Error()}}, nil
		}
		return Result{}, err
	}
	res, err := decodeRun(body)
	if err == nil && res.Fault.Kind == FaultTimeout {
		// the runner exits after a watchdog unwind; restart now so the next command finds a live one
		_ = c.died(errors.New("restart after watchdog timeout"))
	}
	return res, err
}

// RunBatch pipelines many RUNs (same semantics as calling Run in order; map state carries over
// from one to the next).  If the runner dies, the culprit and all later requests get FaultDied.
func (c *Client) RunBatch(reqs []RunReq) ([]Result, error) {
	out := make([]Result, len(reqs))
	if len(reqs) == 0 {
		return out, nil
	}
	if c.cmd == nil {
		return nil, errors.New("bpfnative: client closed")
	}
	for _, q := range reqs {
		if len(q.Frame) > c.MaxFrame {
			return nil, fmt.Errorf("bpfnative: frame of %d bytes exceeds the runner limit %d", len(q.Frame), c.MaxFrame)
		}
	}
	if err := c.in.Flush(); err != nil {
		return nil, c.died(err)
	}
	werr := make(chan error, 1)
	go func() {
		var buf []byte
		for _, q := range reqs {
			buf = encodeRun(buf[:0], q.Prog, q.Frame, q.Opts)
			if err := c.send(buf); err != nil {
				werr <- err
				return
			}
		}
		werr <- c.in.Flush()
	}()
	var rerr error
	if rerr = c.drainAcks(); rerr == nil {
		for i := range reqs {
			st, body, err := c.recv()
			if err != nil {
				rerr = err
				for j := i; j < len(reqs); j++ {
					out[j] = Result{Verdict: -1, Fault: Fault{Kind: FaultDied}}
				}
				break
			}
			if st != 0 {
				<-werr
				return nil, fmt.Errorf("bpfnative: %s", body)
			}
			res, err := decodeRun(body)
			if err != nil {
				<-werr
				return nil, err
			}
			out[i] = res
			if res.Fault.Kind == FaultTimeout {
				rerr = errors.New("restart after watchdog timeout")
				for j := i + 1; j < len(reqs); j++ {
					out[j] = Result{Verdict: -1, Fault: Fault{Kind: FaultDied, Msg: "runner restarted after a timeout earlier in the batch"}}
				}
				break
			}
		}
	}
	if rerr != nil {
		_ = c.inRaw.Close() // unblock the writer
		<-werr
		e := c.died(rerr)
		for j := range out {
			if out[j].Fault.Kind == FaultDied && out[j].Fault.Msg == "" {
				out[j].Fault.Msg = e.Error()
			}
		}
		return out, nil
	}
	if err := <-werr; err != nil {
		return out, c.died(err)
	}
	if c.deferredErr != nil {
		e := c.deferredErr
		c.deferredErr = nil
		return out, e
	}
	return out, nil
}

// Call invokes a static inline helper through its thunk ("<src>.<helper>", see Calls()).
// in is placed in guarded memory (p) and returned as Buf; aux is a plain second blob.
func (c *Client) Call(helper string, args [4]uint64, in, aux []byte, p Placement) (CallResult, error) {
	w := wr{b: c.wbuf[:0]}
	w.u8(opCall)
	w.str(helper)
	w.u8(uint8(p))
	for _, a := range args {
		w.u64(a)
	}
	w.bytes(in)
	w.bytes(aux)
	c.wbuf = w.b
	body, err := c.roundTrip(w.b)
	if err != nil {
		if errors.Is(err, ErrRunnerDied) {
			return CallResult{Fault: Fault{Kind: FaultDied, Msg: err.Error()}}, nil
		}
		return CallResult{}, err
	}
	r := rd{b: body}
	var res CallResult
	res.Ret = r.u64()
	res.Fault = readFault(&r)
	res.Buf = r.bytes()
	res.Out = r.bytes()
	res.Fault.Msg = string(r.bytes())
	if r.bad {
		return res, errors.New("bpfnative: truncated CALL reply")
	}
	if res.Fault.Kind == FaultTimeout {
		_ = c.died(errors.New("restart after watchdog timeout"))
	}
	return res, nil
}
