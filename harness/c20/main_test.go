package c20

// C20 - subscriber-identifying keys map to at most one subscriber.
//
// Every component is driven through generated histories and compared, after
// every step, with a bijection model built only from observed return values:
// each key -> at most one subscriber, keys inside the configured ranges, forward
// and reverse lookups agree, a release leaves every other mapping unchanged and
// makes the key obtainable again.

import (
	"fmt"
	"strings"
	"testing"

	"pgregory.net/rapid"

	"bngverif/internal/vstat"
)

func TestMain(m *testing.M) { vstat.Main(m, "C20") }

type fataler = vstat.Fataler

// hist is the op log of one case; fail reports through vstat with the history attached.
type hist struct {
	comp string
	ops  []string
	lazy []lazyOp // bounded-exhaustive runs log unformatted and render only when a history is needed
	dead bool     // a listed known finding fired: the state is undefined, abandon the case
}

type lazyOp struct {
	f string
	a []any
}

func (h *hist) logf(f string, a ...any) {
	if h.lazy != nil {
		h.lazy = append(h.lazy, lazyOp{f, a})
		return
	}
	h.ops = append(h.ops, fmt.Sprintf(f, a...))
}

// history renders the op log.
func (h *hist) history() []string {
	if h.lazy == nil {
		return h.ops
	}
	out := make([]string, 0, len(h.lazy))
	for _, l := range h.lazy {
		out = append(out, fmt.Sprintf(l.f, l.a...))
	}
	return out
}

func (h *hist) fail(t fataler, kind, f string, a ...any) bool {
	t.Helper()
	sig := "C20/" + h.comp + "/" + kind
	if vstat.Known(sig) { // listed finding: count the hit, abandon the case (no formatting on this hot path)
		h.dead = true
		return true
	}
	if vstat.Fail(t, sig, "%s\nhistory: %s", fmt.Sprintf(f, a...), strings.Join(h.history(), "; ")) {
		h.dead = true
	}
	return h.dead
}

func (h *hist) fp() uint64 { return vstat.Hash(h.comp, strings.Join(h.history(), ";")) }

// guard turns every action into a no-op once a listed known finding has fired (the state after a violation is
// undefined), so that the case still completes and is counted with its classes instead of being discarded.
func guard(dead *bool, actions map[string]func(*rapid.T)) map[string]func(*rapid.T) {
	out := make(map[string]func(*rapid.T), len(actions))
	for k, f := range actions {
		f := f
		out[k] = func(rt *rapid.T) {
			if *dead {
				return
			}
			f(rt)
		}
	}
	return out
}

func okerr(err error) string {
	if err == nil {
		return "ok"
	}
	return "err"
}
