package c20

import (
	"context"
	"fmt"
	"testing"

	"github.com/codelaboratoryltd/bng/pkg/nexus"
	"pgregory.net/rapid"

	"bngverif/internal/vstat"
)

type pair struct{ s, c uint16 }

func (p pair) String() string { return fmt.Sprintf("(%d,%d)", p.s, p.c) }

type loadRec struct {
	id   string
	s, c uint16
}

type vlanOp struct {
	kind string // alloc | allocS | release | load
	nte  string
	stag uint16
	recs []loadRec
}

func (o vlanOp) String() string {
	switch o.kind {
	case "allocS":
		return fmt.Sprintf("allocS(%s,%d)", o.nte, o.stag)
	case "load":
		s := "load["
		for i, r := range o.recs {
			if i > 0 {
				s += " "
			}
			s += fmt.Sprintf("%s=(%d,%d)", r.id, r.s, r.c)
		}
		return s + "]"
	}
	return o.kind + "(" + o.nte + ")"
}

// vlanSim drives one nexus.VLANAllocator and the bijection model side by side.
type vlanSim struct {
	h         *hist
	cfg       nexus.VLANAllocatorConfig
	a         *nexus.VLANAllocator
	ntes      []string
	has       map[string]pair // model: NTE -> pair, from observed return values
	holder    map[pair]string // model: pair -> NTE
	freedBy   map[pair]string // pair -> NTE that last gave it up
	origin    map[string]string // model: how the NTE came by its pair: "alloc" | "allocS" | "load"
	loaded    bool            // history contains a LoadFromStore
	oorReq    bool            // an out-of-range outer tag was requested through AllocateWithSTag
	oorLoad   bool            // a pair outside the ranges was loaded
	oorFreed  bool            // a pair whose outer tag lies outside STagRange was given up
	oorThenPlain bool         // ... and a plain Allocate handed out a fresh pair afterwards
	nt        bool            // a released pair was re-acquired by another NTE, or two NTEs contended for a pair
	exhausted bool
}

func newVlanSim(cfg nexus.VLANAllocatorConfig, ntes []string) *vlanSim {
	v := &vlanSim{h: &hist{comp: "vlan"}, cfg: cfg, a: nexus.NewVLANAllocator(cfg), ntes: ntes,
		has: map[string]pair{}, holder: map[pair]string{}, freedBy: map[pair]string{}, origin: map[string]string{}}
	v.h.logf("cfg S[%d-%d] C[%d-%d]", cfg.STagRange.Start, cfg.STagRange.End, cfg.CTagRange.Start, cfg.CTagRange.End)
	return v
}

func (v *vlanSim) inRange(p pair) bool {
	return p.s >= v.cfg.STagRange.Start && p.s <= v.cfg.STagRange.End && p.c >= v.cfg.CTagRange.Start && p.c <= v.cfg.CTagRange.End
}

func (v *vlanSim) sInRange(s uint16) bool {
	return s >= v.cfg.STagRange.Start && s <= v.cfg.STagRange.End
}

func (v *vlanSim) cInRange(c uint16) bool {
	return c >= v.cfg.CTagRange.Start && c <= v.cfg.CTagRange.End
}

func (v *vlanSim) capacity() int {
	return int(v.cfg.STagRange.End-v.cfg.STagRange.Start+1) * int(v.cfg.CTagRange.End-v.cfg.CTagRange.Start+1)
}

// freePair: a pair inside the ranges (with outer tag s if s != 0) that the model says nobody holds.
func (v *vlanSim) freePair(s uint16) (pair, bool) {
	if s != 0 && !v.sInRange(s) {
		// an ISP-assigned outer tag outside the auto-allocation range: its inner tags come from CTagRange all the same
		for ct := v.cfg.CTagRange.Start; ct <= v.cfg.CTagRange.End; ct++ {
			if _, used := v.holder[pair{s, ct}]; !used {
				return pair{s, ct}, true
			}
		}
		return pair{}, false
	}
	for st := v.cfg.STagRange.Start; st <= v.cfg.STagRange.End; st++ {
		if s != 0 && st != s {
			continue
		}
		for ct := v.cfg.CTagRange.Start; ct <= v.cfg.CTagRange.End; ct++ {
			if _, used := v.holder[pair{st, ct}]; !used {
				return pair{st, ct}, true
			}
		}
	}
	return pair{}, false
}

func (v *vlanSim) leakKind() string {
	if v.loaded {
		return "pair-leaked/after-LoadFromStore"
	}
	return "pair-leaked"
}

func (v *vlanSim) drop(n string) {
	if p, ok := v.has[n]; ok {
		delete(v.has, n)
		delete(v.holder, p)
		delete(v.origin, n)
		v.freedBy[p] = n
		if !v.sInRange(p.s) {
			v.oorFreed = true
		}
	}
}

func (v *vlanSim) take(t fataler, n string, p pair, op string) bool {
	if o, ok := v.holder[p]; ok && o != n {
		return v.h.fail(t, "duplicate-pair/"+op, "%s handed %s to %s while %s holds it", op, p, n, o)
	}
	if prev, ok := v.has[n]; ok && prev != p {
		v.drop(n)
	}
	if f, ok := v.freedBy[p]; ok && f != n {
		v.nt = true
	}
	delete(v.freedBy, p)
	v.has[n] = p
	v.holder[p] = n
	return false
}

// step applies one op to the real allocator and the model, then checks every invariant. false = case abandoned.
func (v *vlanSim) step(t fataler, op vlanOp) bool {
	t.Helper()
	switch op.kind {
	case "alloc":
		r, err := v.a.Allocate(op.nte)
		if err != nil {
			v.h.logf("alloc(%s)=err", op.nte)
			if p, held := v.has[op.nte]; held {
				if v.h.fail(t, "reask-failed/Allocate", "Allocate(%s) failed (%v) although the NTE holds %s", op.nte, err, p) {
					return false
				}
			}
			if p, ok := v.freePair(0); ok {
				if v.h.fail(t, v.leakKind(), "Allocate(%s) failed (%v) although %s is inside the ranges and held by nobody", op.nte, err, p) {
					return false
				}
			}
			v.exhausted = true
		} else {
			p := pair{r.STag, r.CTag}
			v.h.logf("alloc(%s)=%s", op.nte, p)
			if r.NTEID != op.nte {
				if v.h.fail(t, "wrong-nte/Allocate", "Allocate(%s) returned an allocation of %q", op.nte, r.NTEID) {
					return false
				}
			}
			_, heldBefore := v.has[op.nte]
			if !heldBefore {
				// a pair handed out by plain Allocate lies inside the configured ranges
				if !v.inRange(p) {
					if v.h.fail(t, "out-of-range/Allocate", "Allocate(%s) handed out %s outside S[%d-%d] C[%d-%d]", op.nte, p, v.cfg.STagRange.Start, v.cfg.STagRange.End, v.cfg.CTagRange.Start, v.cfg.CTagRange.End) {
						return false
					}
				}
				if v.oorFreed {
					v.oorThenPlain = true
				}
			}
			if v.take(t, op.nte, p, "Allocate") {
				return false
			}
			if !heldBefore {
				v.origin[op.nte] = "alloc"
			}
		}
	case "allocS":
		prev, held := v.has[op.nte]
		if !v.sInRange(op.stag) {
			v.oorReq = true
		}
		r, err := v.a.AllocateWithSTag(op.nte, op.stag)
		if err != nil {
			v.h.logf("allocS(%s,%d)=err", op.nte, op.stag)
			// a failed move may have cost the NTE its previous pair (the statement does not forbid that);
			// it must hold either the previous pair or nothing
			g, ok := v.a.Get(op.nte)
			if ok && (!held || (pair{g.STag, g.CTag}) != prev) {
				if v.h.fail(t, "get-disagrees-with-return/AllocateWithSTag", "AllocateWithSTag(%s,%d) failed but Get reports (%d,%d); before the call the NTE held %v (held=%v)", op.nte, op.stag, g.STag, g.CTag, prev, held) {
					return false
				}
			}
			if !ok {
				v.drop(op.nte)
			}
			if p, free := v.freePair(op.stag); free {
				if v.h.fail(t, v.leakKind(), "AllocateWithSTag(%s,%d) failed (%v) although %s is inside the ranges and held by nobody", op.nte, op.stag, err, p) {
					return false
				}
			}
			v.exhausted = true
		} else {
			p := pair{r.STag, r.CTag}
			v.h.logf("allocS(%s,%d)=%s", op.nte, op.stag, p)
			if r.NTEID != op.nte || r.STag != op.stag {
				if v.h.fail(t, "wrong-nte/AllocateWithSTag", "AllocateWithSTag(%s,%d) returned %s for %q", op.nte, op.stag, p, r.NTEID) {
					return false
				}
			}
			// a pair handed out by AllocateWithSTag carries the requested outer tag (checked above) and an inner tag from CTagRange
			if !(held && prev == p) && !v.cInRange(p.c) {
				if v.h.fail(t, "out-of-range/AllocateWithSTag", "AllocateWithSTag(%s,%d) handed out %s: inner tag outside C[%d-%d]", op.nte, op.stag, p, v.cfg.CTagRange.Start, v.cfg.CTagRange.End) {
					return false
				}
			}
			if v.take(t, op.nte, p, "AllocateWithSTag") {
				return false
			}
			if !(held && prev == p) {
				v.origin[op.nte] = "allocS"
			}
		}
	case "release":
		v.a.Release(op.nte)
		v.h.logf("release(%s)", op.nte)
		v.drop(op.nte)
	case "load":
		var ntes []*nexus.NTE
		seen := map[pair]string{}
		for _, r := range op.recs {
			ntes = append(ntes, &nexus.NTE{ID: r.id, STag: r.s, CTag: r.c})
			if r.s == 0 || r.c == 0 {
				continue
			}
			p := pair{r.s, r.c}
			if o, ok := seen[p]; ok && o != r.id {
				v.nt = true // two NTEs contend for one pair inside the stored list
			}
			seen[p] = r.id
			if o, ok := v.holder[p]; ok && o != r.id {
				v.nt = true // a stored pair contends with a live allocation
			}
		}
		err := v.a.LoadFromStore(context.Background(), ntes)
		v.loaded = true
		v.h.logf("%s=%s", op, okerr(err))
		// which record wins a conflict is not prescribed: re-read the table, then demand the invariants
		old := v.has
		v.has, v.holder = map[string]pair{}, map[pair]string{}
		for _, n := range v.ntes {
			if g, ok := v.a.Get(n); ok {
				p := pair{g.STag, g.CTag}
				v.has[n] = p
				if _, dup := v.holder[p]; !dup {
					v.holder[p] = n
				}
			}
		}
		for n, p := range old {
			if q, ok := v.has[n]; !ok || q != p {
				if _, taken := v.holder[p]; !taken {
					v.freedBy[p] = n
					if !v.sInRange(p.s) {
						v.oorFreed = true
					}
				}
				delete(v.origin, n)
			}
		}
		for _, r := range op.recs {
			if r.s == 0 || r.c == 0 {
				continue
			}
			if !v.inRange(pair{r.s, r.c}) {
				v.oorLoad = true
			}
			if q, ok := v.has[r.id]; ok && q == (pair{r.s, r.c}) && (old[r.id] != q || v.origin[r.id] == "") {
				v.origin[r.id] = "load" // a stored pair is whatever the store says (it may stem from an older, wider configuration)
			}
		}
	}
	return v.check(t, op)
}

// check: Get agrees with the model for every NTE (so the op disturbed nobody else), Get(n) names n, pairs are
// inside the ranges, no pair is reported for two NTEs, the allocation count matches.
func (v *vlanSim) check(t fataler, op vlanOp) bool {
	t.Helper()
	opn := map[string]string{"alloc": "Allocate", "allocS": "AllocateWithSTag", "release": "Release", "load": "LoadFromStore"}[op.kind]
	seen := map[pair]string{}
	count := 0
	for _, n := range v.ntes {
		g, ok := v.a.Get(n)
		want, held := v.has[n]
		if ok != held || (ok && (pair{g.STag, g.CTag}) != want) {
			kind := "other-mapping-changed/" + opn
			if n == op.nte {
				kind = "get-disagrees-with-return/" + opn
			}
			got := "nothing"
			if ok {
				got = pair{g.STag, g.CTag}.String()
			}
			if v.h.fail(t, kind, "after %s: Get(%s) reports %s, the model (observed return values) says %v (held=%v)", op, n, got, want, held) {
				return false
			}
		}
		if !ok {
			continue
		}
		count++
		p := pair{g.STag, g.CTag}
		if g.NTEID != n {
			if v.h.fail(t, "get-wrong-nte/"+opn, "after %s: Get(%s) returns an allocation of %q", op, n, g.NTEID) {
				return false
			}
		}
		// range clause: pairs that plain Allocate handed out lie inside both ranges; pairs from AllocateWithSTag carry the
		// requested outer tag and an inner tag of CTagRange; loaded pairs are what the store recorded
		if (v.origin[n] == "alloc" && !v.inRange(p)) || (v.origin[n] == "allocS" && !v.cInRange(p.c)) {
			if v.h.fail(t, "out-of-range/"+opn, "after %s: %s holds %s (obtained through %s) outside S[%d-%d] C[%d-%d]", op, n, p, v.origin[n], v.cfg.STagRange.Start, v.cfg.STagRange.End, v.cfg.CTagRange.Start, v.cfg.CTagRange.End) {
				return false
			}
		}
		if o, dup := seen[p]; dup {
			if v.h.fail(t, "duplicate-pair/"+opn, "after %s: pair %s is reported for both %s and %s", op, p, o, n) {
				return false
			}
		}
		seen[p] = n
	}
	if st := v.a.Stats(); st.TotalAllocations != count {
		if v.h.fail(t, "stats-mismatch/"+opn, "after %s: Stats().TotalAllocations=%d but %d NTEs hold a pair", op, st.TotalAllocations, count) {
			return false
		}
	}
	return true
}

// drain: at the end every pair nobody holds must be obtainable (release really made it reusable) and nothing
// more: fill every outer tag until the allocator refuses, then the table must be exactly the configured grid.
func (v *vlanSim) drain(t fataler) bool {
	t.Helper()
	if v.h.dead {
		return false
	}
	all := map[pair]string{}
	for n, p := range v.has {
		all[p] = n
	}
	// first plain Allocate until it refuses: whatever it hands out is inside the ranges and held by nobody
	for i := 0; i <= v.capacity(); i++ {
		id := fmt.Sprintf("drain-plain-%d", i)
		r, err := v.a.Allocate(id)
		if err != nil {
			break
		}
		p := pair{r.STag, r.CTag}
		if o, dup := all[p]; dup {
			return !v.h.fail(t, "duplicate-pair/drain", "drain: Allocate(%s) returned %s which %s holds", id, p, o)
		}
		if !v.inRange(p) {
			return !v.h.fail(t, "out-of-range/drain", "drain: Allocate(%s) returned %s outside S[%d-%d] C[%d-%d]", id, p, v.cfg.STagRange.Start, v.cfg.STagRange.End, v.cfg.CTagRange.Start, v.cfg.CTagRange.End)
		}
		all[p] = id
	}
	nc := int(v.cfg.CTagRange.End-v.cfg.CTagRange.Start) + 1
	for st := v.cfg.STagRange.Start; st <= v.cfg.STagRange.End; st++ {
		for i := 0; i <= nc; i++ {
			id := fmt.Sprintf("drain-%d-%d", st, i)
			r, err := v.a.AllocateWithSTag(id, st)
			if err != nil {
				break
			}
			p := pair{r.STag, r.CTag}
			if o, dup := all[p]; dup {
				return !v.h.fail(t, "duplicate-pair/drain", "drain: AllocateWithSTag(%s,%d) returned %s which %s holds", id, st, p, o)
			}
			if !v.inRange(p) || p.s != st {
				return !v.h.fail(t, "out-of-range/drain", "drain: AllocateWithSTag(%s,%d) returned %s", id, st, p)
			}
			all[p] = id
		}
	}
	inside := 0
	for p := range all {
		if v.inRange(p) {
			inside++
		}
	}
	if inside != v.capacity() {
		var missing []string
		for st := v.cfg.STagRange.Start; st <= v.cfg.STagRange.End; st++ {
			for ct := v.cfg.CTagRange.Start; ct <= v.cfg.CTagRange.End; ct++ {
				if _, ok := all[pair{st, ct}]; !ok {
					missing = append(missing, pair{st, ct}.String())
				}
			}
		}
		return !v.h.fail(t, v.leakKind(), "drain: only %d of %d pairs are held or obtainable; nobody holds %v yet the allocator refuses to hand them out", inside, v.capacity(), missing)
	}
	return true
}

var vlanNTEs = []string{"nte-0", "nte-1", "nte-2", "nte-3", "nte-4"}

func genVlanCfg() *rapid.Generator[nexus.VLANAllocatorConfig] {
	return rapid.Custom(func(t *rapid.T) nexus.VLANAllocatorConfig {
		ns := rapid.SampledFrom([]int{1, 2, 2, 3, 3}).Draw(t, "nS")
		nc := rapid.SampledFrom([]int{1, 2, 2, 3, 3}).Draw(t, "nC")
		s0 := rapid.IntRange(1, 4094-ns+1).Draw(t, "s0")
		c0 := rapid.IntRange(1, 4094-nc+1).Draw(t, "c0")
		return nexus.VLANAllocatorConfig{
			STagRange: nexus.VLANRange{Start: uint16(s0), End: uint16(s0 + ns - 1)},
			CTagRange: nexus.VLANRange{Start: uint16(c0), End: uint16(c0 + nc - 1)},
		}
	})
}

// genTag draws a VLAN id: inside r, or - one time in `every` - just below / well below / just above / well above it.
func genTag(r nexus.VLANRange, every int) *rapid.Generator[int] {
	return rapid.Custom(func(t *rapid.T) int {
		if rapid.IntRange(0, every-1).Draw(t, "outside") != 0 {
			return rapid.IntRange(int(r.Start), int(r.End)).Draw(t, "tag")
		}
		var c []int
		for _, x := range []int{int(r.Start) - 1, int(r.Start) - 2, 1, int(r.End) + 1, int(r.End) + 2, 4094} {
			if x >= 1 && x <= 4094 && (x < int(r.Start) || x > int(r.End)) {
				c = append(c, x)
			}
		}
		if len(c) == 0 {
			return int(r.Start)
		}
		return rapid.SampledFrom(c).Draw(t, "outsideTag")
	})
}

const (
	sigVlanDupLoad  = "C20/vlan/duplicate-pair/LoadFromStore"
	sigVlanLeakLoad = "C20/vlan/pair-leaked/after-LoadFromStore"
)

// TestPropVLANAllocator: random long histories of Allocate / AllocateWithSTag(in-range tag) / Release /
// LoadFromStore (consistent lists, lists with duplicate pairs, pairs conflicting with live allocations,
// an NTE re-loaded with another pair) over 1-3 outer x 1-3 inner tags and 5 NTEs.
func TestPropVLANAllocator(t *testing.T) {
	vstat.Checks(3000, 100000)
	rapid.Check(t, func(rt *rapid.T) {
		cfg := genVlanCfg().Draw(rt, "cfg")
		v := newVlanSim(cfg, vlanNTEs)
		// listed LoadFromStore defects end a case at the first conflicting load: keep most cases free of them
		conflictLoads := true
		if vstat.IsListed(sigVlanDupLoad) || vstat.IsListed(sigVlanLeakLoad) {
			conflictLoads = rapid.IntRange(0, 2).Draw(rt, "conflictLoads") == 0
		}
		nte := rapid.SampledFrom(vlanNTEs)
		// outer tags: mostly inside STagRange, every fourth time one BELOW or ABOVE it (AllocateWithSTag is "for
		// ISP-assigned S-TAGs" and checks no range; stored pairs may stem from an older, wider configuration)
		stag := genTag(cfg.STagRange, 4)
		ctag := genTag(cfg.CTagRange, 8) // stored pairs only
		loads, conflicts := 0, 0
		rt.Repeat(guard(&v.h.dead, map[string]func(*rapid.T){
			"alloc": func(rt *rapid.T) {
				v.step(rt, vlanOp{kind: "alloc", nte: nte.Draw(rt, "nte")})
			},
			"allocS": func(rt *rapid.T) {
				v.step(rt, vlanOp{kind: "allocS", nte: nte.Draw(rt, "nte"), stag: uint16(stag.Draw(rt, "stag"))})
			},
			"release": func(rt *rapid.T) {
				v.step(rt, vlanOp{kind: "release", nte: nte.Draw(rt, "nte")})
			},
			"load": func(rt *rapid.T) {
				k := rapid.IntRange(1, 3).Draw(rt, "k")
				var recs []loadRec
				used := map[pair]bool{}
				ids := map[string]bool{}
				for i := 0; i < k; i++ {
					id := nte.Draw(rt, "id")
					if conflictLoads {
						switch rapid.IntRange(0, 5).Draw(rt, "shape") {
						case 0: // not yet provisioned in the store
							recs = append(recs, loadRec{id, 0, 0})
						default: // any in-range pair: may duplicate another record, a live allocation, or move the NTE
							recs = append(recs, loadRec{id, uint16(stag.Draw(rt, "s")), uint16(ctag.Draw(rt, "c"))})
						}
						continue
					}
					// consistent store content: one record per NTE; its own live pair, or a pair nobody holds
					if ids[id] {
						continue
					}
					ids[id] = true
					if p, ok := v.has[id]; ok {
						recs = append(recs, loadRec{id, p.s, p.c})
						continue
					}
					p := pair{uint16(stag.Draw(rt, "s")), uint16(ctag.Draw(rt, "c"))}
					if _, held := v.holder[p]; held || used[p] {
						recs = append(recs, loadRec{id, 0, 0})
						continue
					}
					used[p] = true
					recs = append(recs, loadRec{id, p.s, p.c})
				}
				if len(recs) == 0 {
					rt.Skip("empty load")
				}
				loads++
				if conflictLoads {
					conflicts++
				}
				v.step(rt, vlanOp{kind: "load", recs: recs})
			},
		}))
		v.drain(rt)
		cls := []string{"vlan", fmt.Sprintf("vlan:grid=%dx%d", cfg.STagRange.End-cfg.STagRange.Start+1, cfg.CTagRange.End-cfg.CTagRange.Start+1)}
		if loads > 0 {
			cls = append(cls, "vlan:has-load")
		}
		if conflicts > 0 {
			cls = append(cls, "vlan:conflicting-load")
		}
		if v.exhausted {
			cls = append(cls, "vlan:exhausted")
		}
		if v.oorReq {
			cls = append(cls, "vlan:out-of-range-stag-requested")
		}
		if v.oorLoad {
			cls = append(cls, "vlan:out-of-range-pair-loaded")
		}
		if v.oorFreed {
			cls = append(cls, "vlan:out-of-range-stag-pair-given-up")
		}
		if v.oorThenPlain {
			cls = append(cls, "vlan:out-of-range-stag-pair-given-up-then-plain-allocate")
		}
		if v.nt {
			cls = append(cls, "nt:reacquired-or-contended", "nt:"+cls[0])
		}
		ops := v.h.ops
		vstat.Case(v.nt, v.h.fp(), func() any { return map[string]any{"component": "vlan", "ops": ops} }, cls...)
	})
}

// TestPropVLANExhaustive: every sequence of <= depth ops (quick 5, thorough 7) from a 13-op alphabet over
// 2 outer x 2 inner tags and 3 NTEs: the bounded-exhaustive part of the quantifier.
func TestPropVLANExhaustive(t *testing.T) {
	depth := vstat.Scale(5, 7)
	if depth > 7 {
		depth = 7
	}
	cfg := nexus.VLANAllocatorConfig{STagRange: nexus.VLANRange{Start: 100, End: 101}, CTagRange: nexus.VLANRange{Start: 200, End: 201}}
	ntes := []string{"a", "b", "c"}
	alphabet := []vlanOp{
		{kind: "alloc", nte: "a"}, {kind: "alloc", nte: "b"}, {kind: "alloc", nte: "c"},
		{kind: "allocS", nte: "a", stag: 100}, {kind: "allocS", nte: "a", stag: 101},
		{kind: "allocS", nte: "b", stag: 100}, {kind: "allocS", nte: "b", stag: 101},
		{kind: "allocS", nte: "a", stag: 99}, // an outer tag below STagRange
		{kind: "release", nte: "a"}, {kind: "release", nte: "b"},
		{kind: "load", recs: []loadRec{{"a", 100, 200}}},
		{kind: "load", recs: []loadRec{{"b", 100, 200}}},
		{kind: "load", recs: []loadRec{{"a", 101, 201}, {"c", 101, 201}}},
	}
	shard, shards := vstat.Shard()
	seq := make([]int, depth)
	total := 0
	var run func(n int)
	// every sequence is replayed from a fresh allocator (the allocator cannot be cloned); prefixes are
	// checked as part of their extensions, so only sequences of exactly `depth` ops are enumerated
	run = func(pos int) {
		if pos == depth {
			v := newVlanSim(cfg, ntes)
			v.h.ops, v.h.lazy = nil, make([]lazyOp, 0, depth+1)
			for _, i := range seq {
				if !v.step(t, alphabet[i]) {
					break
				}
			}
			v.drain(t)
			total++
			fp := uint64(depth)
			for _, i := range seq {
				fp = fp*31 + uint64(i) + 1
			}
			// depth 7 is 3.6e7 sequences: keep the fingerprint set bounded by recording every 64th non-trivial one
			// (distinct_nontrivial is then an undercount, never an overcount)
			nt := v.nt && (depth <= 5 || fp%64 == 0)
			vstat.Case(nt, vstat.Hash("vlan-exhaustive", fp), func() any { return map[string]any{"component": "vlan-exhaustive", "ops": v.h.history()} }, "vlan-exhaustive")
			return
		}
		for i := range alphabet {
			if pos == 0 && i%shards != shard {
				continue
			}
			seq[pos] = i
			run(pos + 1)
		}
	}
	run(0)
	vstat.Exhaustive(true)
	vstat.Note("vlan_exhaustive", fmt.Sprintf("all sequences of %d ops over %d-op alphabet (3 NTEs, 2x2 tags): %d sequences in this shard", depth, len(alphabet), total))
}
