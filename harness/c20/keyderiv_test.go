package c20

// Key derivation: every function that turns a subscriber identifier into a map key
// (ebpf.HashCircuitID -> circuit_id_map, ebpf.MakeCircuitIDKey -> circuit_id_subscribers,
// ebpf.MACToUint64 -> subscriber_pools / the value of circuit_id_map) is compared with an
// independent reference over the whole byte domain, and checked for pairwise injectivity
// on adversarial pairs.  The only collisions that are let through are the LISTED ones, and
// only when the references say they are of that kind:
//
//   - trailing-zero padding of the fixed 32-byte key (KF-C20-6): the two identifiers are
//     equal after stripping trailing 0x00 bytes;
//   - genuine 64-bit FNV-1a collisions (KF-C20-7): hash/fnv agrees that the two
//     identifiers have one FNV-1a-64 value.
//
// Anything else that shares a key gets its own signature.

import (
	"bytes"
	"encoding/binary"
	"fmt"
	"net"
	"testing"

	bngebpf "github.com/codelaboratoryltd/bng/pkg/ebpf"
	"pgregory.net/rapid"

	"bngverif/internal/vstat"
)

const (
	sigHashRef     = "C20/circuitid/hash-key-derivation/differs-from-fnv1a64-reference"
	sigFixedRef    = "C20/circuitid/fixed-key-derivation/differs-from-copy-zero-pad-reference"
	sigHashNotFNV  = "C20/circuitid/hash-key-shared/not-an-fnv1a64-collision"
	sigFixedOther  = "C20/circuitid/fixed-key-shared/other"
	sigMACRef      = "C20/mackey/derivation/differs-from-big-endian-reference"
	sigMACShared   = "C20/mackey/key-shared/distinct-macs"
	sigMACRoundtip = "C20/mackey/derivation/uint64-to-mac-round-trip"
)

// ---- references (independent of pkg/ebpf) ---------------------------------------

// refFixedKey: the first 32 bytes of the identifier, zero padded (maps.h: circuit_id_key.data).
func refFixedKey(b []byte) (k [32]byte) {
	for i := 0; i < len(b) && i < len(k); i++ {
		k[i] = b[i]
	}
	return k
}

// refMAC: the six MAC bytes as the low 48 bits of a big-endian integer (mac_to_u64 in the C programs).
func refMAC(mac []byte) uint64 {
	var buf [8]byte
	copy(buf[2:], mac[:6])
	return binary.BigEndian.Uint64(buf[:])
}

// hashShareKind names WHY two distinct identifiers share the circuit_id_map key: only a pair the
// independent FNV-1a-64 also maps to one value is the listed collision.
func hashShareKind(a, b []byte) string {
	if fnv64(a) == fnv64(b) {
		return "fnv1a64-collision"
	}
	return "not-an-fnv1a64-collision"
}

// checkDerivation compares both circuit-id key functions with their references on one identifier.
func checkDerivation(t fataler, id []byte) bool {
	if got, want := bngebpf.HashCircuitID(id), fnv64(id); got != want {
		vstat.Fail(t, sigHashRef, "HashCircuitID(% x) (%d bytes) = %016x, the 64-bit FNV-1a of these bytes is %016x", id, len(id), got, want)
		return false
	}
	if got, want := [32]byte(bngebpf.MakeCircuitIDKey(id)), refFixedKey(id); got != want {
		vstat.Fail(t, sigFixedRef, "MakeCircuitIDKey(% x) (%d bytes) = % x, first 32 bytes zero padded are % x", id, len(id), got[:], want[:])
		return false
	}
	return true
}

// checkPair: two DISTINCT identifiers must get distinct keys, except for the listed collisions.
// It returns the classes of the pair and false if the case must be abandoned.
func checkPair(t fataler, a, b []byte) ([]string, bool) {
	var cls []string
	if bngebpf.HashCircuitID(a) == bngebpf.HashCircuitID(b) {
		kind := hashShareKind(a, b)
		cls = append(cls, "pair:hash-key-shared:"+kind)
		if vstat.Fail(t, "C20/circuitid/hash-key-shared/"+kind, "distinct circuit-ids % x (%d bytes) and % x (%d bytes) get one circuit_id_map key %016x (independent FNV-1a-64: %016x / %016x)",
			a, len(a), b, len(b), bngebpf.HashCircuitID(a), fnv64(a), fnv64(b)) {
			return cls, true
		}
		return cls, false
	}
	if len(a) <= bngebpf.CircuitIDKeyLen && len(b) <= bngebpf.CircuitIDKeyLen {
		cls = append(cls, "pair:both-fit-fixed-key")
		if bngebpf.MakeCircuitIDKey(a) == bngebpf.MakeCircuitIDKey(b) {
			kind := sharedKind(a, b)
			cls = append(cls, "pair:fixed-key-shared:"+kind)
			if vstat.Fail(t, "C20/circuitid/fixed-key-shared/"+kind, "distinct circuit-ids % x (%d bytes) and % x (%d bytes) get one circuit_id_subscribers key % x",
				a, len(a), b, len(b), bngebpf.MakeCircuitIDKey(a)) {
				return cls, true
			}
			return cls, false
		}
	}
	return cls, true
}

// ---- single identifiers: reference comparison ----------------------------------

type idCase struct {
	shape string
	id    []byte
}

// pick draws an index 0..n-1 from coin flips (rapid's SampledFrom / IntRange favour the low end, which starves
// the shapes listed last); indices beyond n wrap around.
func pick(t *rapid.T, label string, n int) int {
	v := 0
	for b := 1; b < n; b <<= 1 {
		v <<= 1
		if rapid.Bool().Draw(t, label) {
			v |= 1
		}
	}
	return v % n
}

func genIdentifier() *rapid.Generator[idCase] {
	shapes := []string{"random", "random", "zeros-sprinkled", "zero-then-random", "all-zero", "high-bit", "text", "binary-tlv", "ff-fill", "over-key-length"}
	return rapid.Custom(func(t *rapid.T) idCase {
		sh := shapes[pick(t, "shape", len(shapes))]
		n := rapid.IntRange(0, 64).Draw(t, "len")
		if pick(t, "exactlyKeyLen", 8) == 0 {
			n = bngebpf.CircuitIDKeyLen // exactly the fixed key's length: nothing is padded, nothing truncated
		}
		var b []byte
		switch sh {
		case "random":
			b = rapid.SliceOfN(rapid.Byte(), n, n).Draw(t, "bytes")
		case "zeros-sprinkled": // every byte is 0x00 with probability 1/2
			b = make([]byte, n)
			for i := range b {
				if rapid.Bool().Draw(t, "nz") {
					b[i] = byte(rapid.IntRange(1, 255).Draw(t, "b"))
				}
			}
		case "zero-then-random": // the first byte is 0x00 (binary sub-option type 0)
			b = append([]byte{0}, rapid.SliceOfN(rapid.Byte(), 0, 63).Draw(t, "tail")...)
		case "all-zero":
			b = make([]byte, n)
		case "high-bit":
			b = make([]byte, n)
			for i := range b {
				b[i] = byte(rapid.IntRange(0x80, 0xff).Draw(t, "b"))
			}
		case "text":
			b = []byte(fmt.Sprintf("eth %d/%d/%d:%d.%d", rapid.IntRange(0, 3).Draw(t, "a"), rapid.IntRange(0, 9).Draw(t, "b"), rapid.IntRange(0, 48).Draw(t, "c"), rapid.IntRange(1, 4094).Draw(t, "s"), rapid.IntRange(1, 4094).Draw(t, "v")))
		case "binary-tlv": // type 0, length 4, VLAN, slot, port (the binary form many relay agents use)
			v := rapid.IntRange(0, 4095).Draw(t, "vlan")
			b = []byte{0x00, 0x04, byte(v >> 8), byte(v), byte(rapid.IntRange(0, 16).Draw(t, "slot")), byte(rapid.IntRange(0, 255).Draw(t, "port"))}
		case "ff-fill":
			b = bytes.Repeat([]byte{0xff}, n)
		case "over-key-length":
			b = rapid.SliceOfN(rapid.Byte(), 33, 64).Draw(t, "bytes")
		}
		return idCase{sh, b}
	})
}

// TestPropKeyDerivationReference: HashCircuitID / MakeCircuitIDKey against the references on generated
// identifiers of 0..64 bytes, and on every variant of the identifier that has ONE byte replaced by 0x00,
// by 0x80 and by 0xff (so an embedded zero is tried at every position of every generated identifier).
func TestPropKeyDerivationReference(t *testing.T) {
	vstat.Checks(3000, 100000)
	rapid.Check(t, func(rt *rapid.T) {
		c := genIdentifier().Draw(rt, "id")
		if !checkDerivation(rt, c.id) {
			return
		}
		variants := 0
		v := append([]byte(nil), c.id...)
		for p := range v {
			old := v[p]
			for _, x := range []byte{0x00, 0x80, 0xff} {
				if x == old {
					continue
				}
				v[p] = x
				variants++
				if !checkDerivation(rt, v) {
					return
				}
				// the variant is a different identifier: it must not share the original's keys
				if _, ok := checkPair(rt, c.id, v); !ok {
					return
				}
			}
			v[p] = old
		}
		vstat.Class("derivation:variants-compared", int64(variants))
		cls := []string{"derivation", "derivation:shape:" + c.shape, fmt.Sprintf("derivation:len:%s", lenClass(len(c.id)))}
		hasZero := bytes.IndexByte(c.id, 0) >= 0
		hasHigh := false
		for _, b := range c.id {
			hasHigh = hasHigh || b >= 0x80
		}
		if hasZero {
			cls = append(cls, "derivation:embedded-zero")
			if i := bytes.IndexByte(c.id, 0); i < len(c.id)-1 && len(bytes.TrimRight(c.id[i:], "\x00")) > 0 {
				cls = append(cls, "derivation:non-zero-bytes-after-first-zero")
			}
		}
		if hasHigh {
			cls = append(cls, "derivation:high-bit-bytes")
		}
		// non-trivial: the identifier is one on which a wrong derivation can hide (zero byte, high bit, longer than the key)
		nt := hasZero || hasHigh || len(c.id) > bngebpf.CircuitIDKeyLen
		vstat.Case(nt, vstat.Hash("derivation", c.id), func() any {
			return map[string]any{"component": "key-derivation", "shape": c.shape, "id": fmt.Sprintf("%x", c.id)}
		}, cls...)
	})
}

func lenClass(n int) string {
	switch {
	case n == 0:
		return "0"
	case n < 32:
		return "1-31"
	case n == 32:
		return "32"
	default:
		return "33-64"
	}
}

// TestPropKeyDerivationEnumerated: the same comparison on a fixed, completely enumerated set: every byte
// string of length 0..2, and for every length 1..64 and every fill byte of {01 41 80 ff} the filled string
// with a 0x00 at every single position and with its last byte changed.  All identifiers of one length are
// also checked pairwise for shared keys.
func TestPropKeyDerivationEnumerated(t *testing.T) {
	n := 0
	one := func(id []byte, cls string) bool {
		n++
		ok := checkDerivation(t, id)
		vstat.Case(true, vstat.Hash("enum", id), nil, "derivation-enumerated", "derivation-enumerated:"+cls)
		return ok
	}
	if !one(nil, "len<=2") {
		return
	}
	seen := map[uint64][]byte{}
	seenKey := map[[32]byte][]byte{}
	note := func(id []byte) bool {
		h := bngebpf.HashCircuitID(id)
		if o, dup := seen[h]; dup && !bytes.Equal(o, id) {
			if _, ok := checkPair(t, o, id); !ok {
				return false
			}
		}
		seen[h] = append([]byte(nil), id...)
		if len(id) <= bngebpf.CircuitIDKeyLen {
			k := [32]byte(bngebpf.MakeCircuitIDKey(id))
			if o, dup := seenKey[k]; dup && !bytes.Equal(o, id) {
				if _, ok := checkPair(t, o, id); !ok {
					return false
				}
			} else if !dup {
				seenKey[k] = append([]byte(nil), id...)
			}
		}
		return true
	}
	for a := 0; a < 256; a++ {
		if !one([]byte{byte(a)}, "len<=2") || !note([]byte{byte(a)}) {
			return
		}
		for b := 0; b < 256; b++ {
			id := []byte{byte(a), byte(b)}
			if !one(id, "len<=2") || !note(id) {
				return
			}
		}
	}
	for _, fill := range []byte{0x01, 0x41, 0x80, 0xff} {
		for l := 1; l <= 64; l++ {
			base := bytes.Repeat([]byte{fill}, l)
			if !one(base, "filled") || !note(base) {
				return
			}
			for z := 0; z < l; z++ {
				id := append([]byte(nil), base...)
				id[z] = 0
				if !one(id, "zero-at-every-position") || !note(id) {
					return
				}
			}
			last := append([]byte(nil), base...)
			last[l-1] ^= 0x01
			if !one(last, "last-byte-changed") || !note(last) {
				return
			}
		}
	}
	vstat.Note("derivation-enumerated", fmt.Sprintf("%d identifiers: all of length 0..2; fills 01/41/80/ff of length 1..64 with 0x00 at every position and with the last byte changed", n))
}

// ---- adversarial pairs: injectivity ----------------------------------------------

type pairCase struct {
	shape string
	a, b  []byte
}

func nonZeroBytes(t *rapid.T, lo, hi int, label string) []byte {
	n := rapid.IntRange(lo, hi).Draw(t, label+"Len")
	b := make([]byte, n)
	for i := range b {
		b[i] = byte(rapid.IntRange(1, 255).Draw(t, label))
	}
	return b
}

func cat(parts ...[]byte) []byte {
	var out []byte
	for _, p := range parts {
		out = append(out, p...)
	}
	return out
}

// differentTails draws two different byte strings (same length if sameLen) of lo..hi bytes.
func differentTails(t *rapid.T, lo, hi int, sameLen bool) ([]byte, []byte) {
	x := rapid.SliceOfN(rapid.Byte(), lo, hi).Draw(t, "x")
	var y []byte
	if sameLen {
		y = append([]byte(nil), x...)
		p := rapid.IntRange(0, len(y)-1).Draw(t, "diffPos")
		y[p] ^= byte(rapid.IntRange(1, 255).Draw(t, "flip"))
	} else {
		y = rapid.SliceOfN(rapid.Byte(), lo, hi).Draw(t, "y")
		if bytes.Equal(x, y) {
			if len(y) > 0 {
				y = append([]byte(nil), y...)
				y[0] ^= 0x01
			} else {
				y = []byte{0x01}
			}
		}
	}
	return x, y
}

var pairShapes = []string{"equal-up-to-first-zero", "equal-up-to-first-zero", "leading-zero", "binary-tlv", "last-byte", "shared-suffix",
	"prefix-of-other", "high-bit-flip", "zero-vs-nonzero-byte", "random", "trailing-zeros", "fnv-collision"}

func genPair() *rapid.Generator[pairCase] {
	return rapid.Custom(func(t *rapid.T) pairCase {
		sh := pairShapes[pick(t, "shape", len(pairShapes))]
		// two thirds of the pairs fit the fixed key (<= 32 bytes), the rest go up to 64 bytes
		max := 32
		if rapid.IntRange(0, 2).Draw(t, "long") == 0 {
			max = 64
		}
		switch sh {
		case "equal-up-to-first-zero": // prefix without zero bytes, a zero, then different tails
			pre := nonZeroBytes(t, 0, max/2, "pre")
			x, y := differentTails(t, 1, max-len(pre)-1, rapid.Bool().Draw(t, "sameLen"))
			return pairCase{sh, cat(pre, []byte{0}, x), cat(pre, []byte{0}, y)}
		case "leading-zero": // both start with 0x00
			x, y := differentTails(t, 1, max-1, rapid.Bool().Draw(t, "sameLen"))
			return pairCase{sh, cat([]byte{0}, x), cat([]byte{0}, y)}
		case "binary-tlv": // type 0, len 4, vlan, slot, port: differ in slot or port only
			v := rapid.IntRange(0, 4095).Draw(t, "vlan")
			s, p := byte(rapid.IntRange(0, 16).Draw(t, "slot")), byte(rapid.IntRange(0, 255).Draw(t, "port"))
			a := []byte{0x00, 0x04, byte(v >> 8), byte(v), s, p}
			b := append([]byte(nil), a...)
			if rapid.Bool().Draw(t, "slotDiffers") {
				b[4] ^= byte(rapid.IntRange(1, 15).Draw(t, "d"))
			} else {
				b[5] ^= byte(rapid.IntRange(1, 255).Draw(t, "d"))
			}
			return pairCase{sh, a, b}
		case "last-byte": // differ only in the last byte
			a := rapid.SliceOfN(rapid.Byte(), 1, max).Draw(t, "a")
			b := append([]byte(nil), a...)
			b[len(b)-1] ^= byte(rapid.IntRange(1, 255).Draw(t, "flip"))
			return pairCase{sh, a, b}
		case "shared-suffix":
			suf := rapid.SliceOfN(rapid.Byte(), 1, max/2).Draw(t, "suffix")
			x, y := differentTails(t, 1, max-len(suf), rapid.Bool().Draw(t, "sameLen"))
			return pairCase{sh, cat(x, suf), cat(y, suf)}
		case "prefix-of-other": // b = a + tail whose last byte is not zero
			a := rapid.SliceOfN(rapid.Byte(), 0, max-1).Draw(t, "a")
			tail := rapid.SliceOfN(rapid.Byte(), 0, max-len(a)-1).Draw(t, "tail")
			return pairCase{sh, a, cat(a, tail, []byte{byte(rapid.IntRange(1, 255).Draw(t, "end"))})}
		case "high-bit-flip":
			a := rapid.SliceOfN(rapid.Byte(), 1, max).Draw(t, "a")
			b := append([]byte(nil), a...)
			b[rapid.IntRange(0, len(b)-1).Draw(t, "pos")] ^= 0x80
			return pairCase{sh, a, b}
		case "zero-vs-nonzero-byte": // the same string with one byte zeroed
			a := nonZeroBytes(t, 1, max, "a")
			b := append([]byte(nil), a...)
			b[rapid.IntRange(0, len(b)-1).Draw(t, "pos")] = 0
			return pairCase{sh, a, b}
		case "trailing-zeros": // LISTED for the fixed key (KF-C20-6); the hash key must still differ
			a := rapid.SliceOfN(rapid.Byte(), 0, 30).Draw(t, "a")
			return pairCase{sh, a, cat(a, make([]byte, rapid.IntRange(1, 2).Draw(t, "zeros")))}
		case "fnv-collision": // LISTED for the hash key (KF-C20-7); the fixed key must still differ
			p := rapid.SampledFrom(fnvCollisions).Draw(t, "pair")
			return pairCase{sh, []byte(p[0]), []byte(p[1])}
		default:
			x, y := differentTails(t, 0, max, false)
			return pairCase{"random", x, y}
		}
	})
}

// TestPropKeyDerivationPairs: two distinct subscribers' circuit-ids (and MAC addresses) never share a key.
func TestPropKeyDerivationPairs(t *testing.T) {
	vstat.Checks(6000, 200000)
	rapid.Check(t, func(rt *rapid.T) {
		c := genPair().Draw(rt, "pair")
		if bytes.Equal(c.a, c.b) {
			rt.Fatalf("generator produced an equal pair (%s): % x", c.shape, c.a)
		}
		if !checkDerivation(rt, c.a) || !checkDerivation(rt, c.b) {
			return
		}
		cls, ok := checkPair(rt, c.a, c.b)
		if !ok {
			return
		}
		// MAC keys: the pair's first six bytes (padded) as two MAC addresses
		ma, mb := make(net.HardwareAddr, 6), make(net.HardwareAddr, 6)
		copy(ma, c.a)
		copy(mb, c.b)
		for _, m := range []net.HardwareAddr{ma, mb} {
			if got, want := bngebpf.MACToUint64(m), refMAC(m); got != want {
				vstat.Fail(rt, sigMACRef, "MACToUint64(%s) = %012x, big-endian value of the six bytes is %012x", m, got, want)
				return
			}
			if back := bngebpf.Uint64ToMAC(bngebpf.MACToUint64(m)); !bytes.Equal(back, m) {
				vstat.Fail(rt, sigMACRoundtip, "Uint64ToMAC(MACToUint64(%s)) = %s", m, back)
				return
			}
		}
		if !bytes.Equal(ma, mb) {
			cls = append(cls, "pair:distinct-macs")
			if bngebpf.MACToUint64(ma) == bngebpf.MACToUint64(mb) {
				vstat.Fail(rt, sigMACShared, "distinct MACs %s and %s get one key %012x", ma, mb, bngebpf.MACToUint64(ma))
				return
			}
		}
		cls = append(cls, "pairs", "pair:shape:"+c.shape)
		if za, zb := bytes.IndexByte(c.a, 0), bytes.IndexByte(c.b, 0); za >= 0 && za == zb && bytes.Equal(c.a[:za], c.b[:zb]) {
			cls = append(cls, "pair:equal-up-to-first-zero")
		}
		// two subscribers contend for one key only if the derivation is wrong; what makes the pair
		// non-trivial is that the identifiers are close: a common prefix or suffix of at least one byte
		nt := (len(c.a) > 0 && len(c.b) > 0 && (c.a[0] == c.b[0] || c.a[len(c.a)-1] == c.b[len(c.b)-1])) || len(c.a) == 0 || len(c.b) == 0
		vstat.Case(nt, vstat.Hash("pair", c.a, c.b), func() any {
			return map[string]any{"component": "key-derivation-pairs", "shape": c.shape, "a": fmt.Sprintf("%x", c.a), "b": fmt.Sprintf("%x", c.b)}
		}, cls...)
	})
}

// TestReplayBinaryCircuitIDs: binary circuit-ids of distinct subscribers that are equal up to an embedded
// 0x00 byte (type 0 / length 4 / VLAN / slot / port; ASCII node name followed by binary port and VLAN) keep
// distinct keys in both tables, through the real Loader over kernel maps.
func TestReplayBinaryCircuitIDs(t *testing.T) {
	pairs := [][2][]byte{
		{{0x00, 0x04, 0x00, 0x64, 0x01, 0x01}, {0x00, 0x04, 0x00, 0x64, 0x01, 0x02}},
		{{'o', 'l', 't', '7', 0x00, 0x01, 0x00, 0x65}, {'o', 'l', 't', '7', 0x00, 0x02, 0x00, 0x65}},
		{{0x00}, {0x00, 0x01}},
		{{'a', 0x00, 'b'}, {'a'}},
	}
	for _, p := range pairs {
		if !checkDerivation(t, p[0]) || !checkDerivation(t, p[1]) {
			return
		}
		if _, ok := checkPair(t, p[0], p[1]); !ok {
			return
		}
		tb, err := newCircuitTables()
		if err != nil {
			t.Fatalf("INCONCLUSIVE cannot create kernel maps: %v", err)
		}
		h := &hist{comp: "circuitid"}
		for i, cid := range p {
			_ = tb.loader.AddCircuitIDMapping(cid, 0x020000000001+uint64(i))
			asg := bngebpf.PoolAssignment{PoolID: uint32(i + 1), AllocatedIP: 0x0a000001 + uint32(i)}
			_ = tb.loader.AddCircuitIDSubscriber(cid, &asg)
			h.logf("lease(%x)", cid)
		}
		for i, cid := range p {
			if got, err := tb.loader.GetCircuitIDMapping(cid); err != nil || got != 0x020000000001+uint64(i) {
				h.fail(t, "hash-key-shared/"+hashShareKind(p[0], p[1]), "circuit-id % x resolves to MAC %012x (err %v), not to its own subscriber", cid, got, err)
				break
			}
			if got, err := tb.loader.GetCircuitIDSubscriber(cid); err != nil || got.PoolID != uint32(i+1) {
				h.fail(t, "fixed-key-shared/"+sharedKind(p[0], p[1]), "circuit-id % x resolves to %+v (err %v), not to its own subscriber", cid, got, err)
				break
			}
		}
		tb.close()
		replayCase(fmt.Sprintf("binary-circuit-ids-%x", p[0]))
	}
}
