package c20

import (
	"fmt"
	"net"
	"sort"
	"testing"
	"time"

	"github.com/codelaboratoryltd/bng/pkg/pppoe"
	"pgregory.net/rapid"

	"bngverif/internal/vstat"
)

const (
	sigPPPoEIdxRemove  = "C20/pppoe/mac-index-lost/RemoveSession"
	sigPPPoEIdxCleanup = "C20/pppoe/mac-index-lost/CleanupExpired"
)

// pppoeSim: pppoe.SessionManager against the model  id -> client MAC.
// The subscriber behind a PPPoE session id is the client (its MAC): the server creates one session per PADR
// (pppoe/server.go handlePADR never looks for an existing session of that MAC), so a retransmitted PADR or a
// client that reconnects without PADT legitimately has two live sessions.
type pppoeSim struct {
	h                       *hist
	m                       *pppoe.SessionManager
	live                    map[uint16]string         // id -> MAC string
	sess                    map[uint16]*pppoe.Session // id -> object handed out by CreateSession
	gone                    map[uint16]bool           // ids removed so far
	macs                    []net.HardwareAddr
	nt                      bool
	dupMAC, wrapped, zeroID bool
	freedBy                 map[uint16]string
}

func (p *pppoeSim) check(t fataler, op string) bool {
	t.Helper()
	for id, mac := range p.live {
		s := p.m.GetSession(id)
		if s == nil || s != p.sess[id] || s.ID != id || s.ClientMAC.String() != mac {
			return !p.h.fail(t, "forward-mismatch/"+op, "GetSession(%d) = %v, want the live session of %s", id, describe(s), mac)
		}
	}
	for id := range p.gone {
		if _, again := p.live[id]; again {
			continue
		}
		if s := p.m.GetSession(id); s != nil {
			return !p.h.fail(t, "removed-still-found/"+op, "GetSession(%d) = %v although the session was removed", id, describe(s))
		}
	}
	if n := p.m.Count(); n != len(p.live) {
		return !p.h.fail(t, "count-mismatch/"+op, "Count()=%d, %d sessions live", n, len(p.live))
	}
	for _, mac := range p.macs {
		r := p.m.GetSessionByMAC(mac)
		var ids []int
		for id, m := range p.live {
			if m == mac.String() {
				ids = append(ids, int(id))
			}
		}
		sort.Ints(ids)
		if r != nil {
			// reverse -> forward: the session found by MAC is a live session of that MAC
			if r.ClientMAC.String() != mac.String() || p.m.GetSession(r.ID) != r || p.live[r.ID] != mac.String() {
				return !p.h.fail(t, "mac-index-stale/"+op, "GetSessionByMAC(%s) = %v which is not a live session of that MAC (live ids %v)", mac, describe(r), ids)
			}
		} else if len(ids) > 0 {
			// forward -> reverse: a client with a live session must be found by its MAC
			return !p.h.fail(t, "mac-index-lost/"+op, "GetSessionByMAC(%s) = nil although sessions %v of that MAC are live (GetSession(%d).ClientMAC = %s)", mac, ids, ids[0], mac)
		}
	}
	return true
}

func describe(s *pppoe.Session) string {
	if s == nil {
		return "nil"
	}
	return fmt.Sprintf("{ID:%d MAC:%s}", s.ID, s.ClientMAC)
}

func (p *pppoeSim) onRemoved(id uint16) {
	if mac, ok := p.live[id]; ok {
		delete(p.live, id)
		delete(p.sess, id)
		p.gone[id] = true
		p.freedBy[id] = mac
	}
}

// TestPropPPPoESessions: create (same MAC again with weight) / remove / cleanup-expired histories with the id
// counter placed near 65535 so that wrap-around and skipping of occupied ids happen.
func TestPropPPPoESessions(t *testing.T) {
	vstat.Checks(3000, 100000)
	server := net.HardwareAddr{2, 0, 0, 0, 0, 0xfe}
	rapid.Check(t, func(rt *rapid.T) {
		p := &pppoeSim{h: &hist{comp: "pppoe"}, m: pppoe.NewSessionManager(), live: map[uint16]string{}, sess: map[uint16]*pppoe.Session{},
			gone: map[uint16]bool{}, freedBy: map[uint16]string{}}
		for i := 0; i < 4; i++ {
			p.macs = append(p.macs, net.HardwareAddr{2, 0, 0, 0, 0, byte(i + 1)})
		}
		// where earlier create/remove cycles left the counter
		start := rapid.SampledFrom([]int{1, 1, 65530, 65533, 65534, 65535, 0, -1}).Draw(rt, "counter")
		if start == -1 {
			start = rapid.IntRange(1, 65535).Draw(rt, "counterAny")
		}
		p.m.VerifSetNextID(uint16(start))
		p.h.logf("counter=%d", start)
		counter := start
		listed := vstat.IsListed(sigPPPoEIdxRemove) || vstat.IsListed(sigPPPoEIdxCleanup)
		// while the index defect is listed most cases keep one session per MAC so that they reach depth
		allowDup := !listed || rapid.Bool().Draw(rt, "allowSameMAC")
		mac := rapid.SampledFrom(p.macs)
		liveIDs := func() []uint16 {
			var ids []uint16
			for id := range p.live {
				ids = append(ids, id)
			}
			sort.Slice(ids, func(i, j int) bool { return ids[i] < ids[j] })
			return ids
		}
		rt.Repeat(guard(&p.h.dead, map[string]func(*rapid.T){
			"create": func(rt *rapid.T) {
				mc := mac.Draw(rt, "mac")
				has := false
				for _, m := range p.live {
					if m == mc.String() {
						has = true
					}
				}
				if has && !allowDup {
					rt.Skip("one session per MAC in this case")
				}
				s, err := p.m.CreateSession(mc, server)
				if err != nil {
					rt.Fatalf("INCONCLUSIVE CreateSession failed: %v", err)
				}
				p.h.logf("create(%s)=%d", mc, s.ID)
				if o, dup := p.live[s.ID]; dup {
					p.h.fail(rt, "duplicate-session-id/CreateSession", "CreateSession(%s) returned id %d which the live session of %s holds", mc, s.ID, o)
					return
				}
				if has {
					p.dupMAC = true
					p.nt = true // two sessions of one client: the MAC index is contended
				}
				if f, ok := p.freedBy[s.ID]; ok && f != mc.String() {
					p.nt = true // a released id re-acquired by another client
				}
				delete(p.freedBy, s.ID)
				if s.ID == 0 {
					p.zeroID = true
				}
				if int(s.ID) < counter || counter == 0 {
					p.wrapped = true // the counter passed 65535 while looking for this id
				}
				counter = (int(s.ID) + 1) & 0xffff
				p.live[s.ID] = mc.String()
				p.sess[s.ID] = s
				p.check(rt, "CreateSession")
			},
			"remove": func(rt *rapid.T) {
				ids := liveIDs()
				var id uint16
				if len(ids) > 0 && rapid.IntRange(0, 4).Draw(rt, "liveOne") > 0 {
					id = rapid.SampledFrom(ids).Draw(rt, "id")
				} else {
					id = uint16(rapid.SampledFrom([]int{0, 1, 2, 65534, 65535}).Draw(rt, "anyID"))
				}
				p.m.RemoveSession(id)
				p.h.logf("remove(%d)", id)
				p.onRemoved(id)
				p.check(rt, "RemoveSession")
			},
			"cycles": func(rt *rapid.T) {
				// other clients' create/remove cycles advance the counter (it only ever increments and wraps);
				// land it on or just before an id that is live (must be skipped) or was released (may be reused)
				var targets []int
				for _, id := range liveIDs() {
					targets = append(targets, int(id), int(id)-1)
				}
				var freed []int
				for id := range p.freedBy {
					freed = append(freed, int(id))
				}
				sort.Ints(freed)
				targets = append(targets, freed...)
				targets = append(targets, 65535, 65534)
				n := rapid.SampledFrom(targets).Draw(rt, "to")
				if n < 0 {
					n = 65535
				}
				p.m.VerifSetNextID(uint16(n))
				p.h.logf("counter=%d", n)
				counter = n
			},
			"cleanup": func(rt *rapid.T) {
				// a subset of the live sessions has been idle for two hours; CleanupExpired(1h) must remove exactly those
				ids := liveIDs()
				var idle []uint16
				for _, id := range ids {
					if rapid.IntRange(0, 2).Draw(rt, "idle") == 0 {
						idle = append(idle, id)
						p.sess[id].LastActivity = time.Now().Add(-2 * time.Hour)
					}
				}
				n := p.m.CleanupExpired(time.Hour)
				p.h.logf("cleanup(idle=%v)=%d", idle, n)
				if n != len(idle) {
					p.h.fail(rt, "cleanup-count/CleanupExpired", "CleanupExpired removed %d sessions, %d were idle", n, len(idle))
					return
				}
				for _, id := range idle {
					p.onRemoved(id)
				}
				p.check(rt, "CleanupExpired")
			},
		}))
		cls := []string{"pppoe"}
		if start == 0 || start > 65000 {
			cls = append(cls, "pppoe:counter-near-wrap")
		}
		if p.wrapped {
			cls = append(cls, "pppoe:id-wrapped")
		}
		if p.zeroID {
			cls = append(cls, "pppoe:session-id-0-issued")
		}
		if p.dupMAC {
			cls = append(cls, "pppoe:two-sessions-one-mac")
		}
		if p.nt {
			cls = append(cls, "nt:reacquired-or-contended", "nt:"+cls[0])
		}
		ops := p.h.ops
		vstat.Case(p.nt, p.h.fp(), func() any { return map[string]any{"component": "pppoe", "ops": ops} }, cls...)
	})
}
