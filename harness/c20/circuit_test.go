package c20

import (
	"bytes"
	"encoding/binary"
	"fmt"
	"testing"

	cebpf "github.com/cilium/ebpf"
	bngebpf "github.com/codelaboratoryltd/bng/pkg/ebpf"
	"go.uber.org/zap"
	"pgregory.net/rapid"

	"bngverif/internal/vstat"
)

// fnvCollisions: distinct byte strings with one 64-bit FNV-1a value (offline birthday search; verified in
// TestReplayCircuitFixtures).  They are ordinary 20-byte circuit-ids as far as RFC 3046 is concerned.
var fnvCollisions = [][2]string{
	{"bng-70a01d288e43488a", "bng-26394e37860f1677"},
	{"bng-dca63f8939e45119", "bng-b6cc88e0b99b8f77"},
}

const (
	sigCidTrunc = "C20/circuitid/fixed-key-shared/truncated-over-32-bytes"
	sigCidPad   = "C20/circuitid/fixed-key-shared/trailing-zero-padding"
	sigCidFNV   = "C20/circuitid/hash-key-shared/fnv1a64-collision"
)

type circuitTables struct {
	loader *bngebpf.Loader
	hash   *cebpf.Map
	fixed  *cebpf.Map
}

func (c *circuitTables) close() {
	c.hash.Close()
	c.fixed.Close()
}

// newCircuitTables gives a real Loader the two kernel maps the compiled object would provide
// (circuit_id_map: u64 -> u64, circuit_id_subscribers: 32-byte key -> struct pool_assignment).
func newCircuitTables() (*circuitTables, error) {
	h, err := cebpf.NewMap(&cebpf.MapSpec{Type: cebpf.Hash, KeySize: 8, ValueSize: 8, MaxEntries: 64})
	if err != nil {
		return nil, err
	}
	f, err := cebpf.NewMap(&cebpf.MapSpec{Type: cebpf.Hash, KeySize: bngebpf.CircuitIDKeyLen, ValueSize: uint32(binary.Size(bngebpf.PoolAssignment{})), MaxEntries: 64})
	if err != nil {
		h.Close()
		return nil, err
	}
	l, err := bngebpf.NewLoader("lo", zap.NewNop())
	if err != nil {
		h.Close()
		f.Close()
		return nil, err
	}
	l.VerifSetCircuitIDMaps(h, f)
	return &circuitTables{loader: l, hash: h, fixed: f}, nil
}

// sharedKind names HOW two distinct circuit-ids come to share the fixed 32-byte key.
func sharedKind(a, b []byte) string {
	if len(a) > bngebpf.CircuitIDKeyLen || len(b) > bngebpf.CircuitIDKeyLen {
		return "truncated-over-32-bytes"
	}
	if bytes.Equal(bytes.TrimRight(a, "\x00"), bytes.TrimRight(b, "\x00")) {
		return "trailing-zero-padding"
	}
	return "other"
}

type circuitSub struct {
	cid []byte
	mac uint64
	asg bngebpf.PoolAssignment
}

// genCircuitIDs draws 2-5 DISTINCT circuit-ids (1..64 bytes) with the shapes the statement names.
func genCircuitIDs(shapes []string) *rapid.Generator[[][]byte] {
	return rapid.Custom(func(t *rapid.T) [][]byte {
		var out [][]byte
		add := func(b []byte) {
			if len(b) == 0 || len(b) > 64 {
				return
			}
			for _, o := range out {
				if bytes.Equal(o, b) {
					return
				}
			}
			out = append(out, b)
		}
		n := rapid.IntRange(2, 5).Draw(t, "n")
		for len(out) < n {
			switch rapid.SampledFrom(shapes).Draw(t, "shape") {
			case "random":
				add(rapid.SliceOfN(rapid.Byte(), 1, 64).Draw(t, "cid"))
			case "text": // the structured form OLTs use
				add([]byte(fmt.Sprintf("eth %d/%d/%d:%d.%d", rapid.IntRange(0, 3).Draw(t, "a"), rapid.IntRange(0, 9).Draw(t, "b"), rapid.IntRange(0, 48).Draw(t, "c"), rapid.IntRange(1, 4094).Draw(t, "s"), rapid.IntRange(1, 4094).Draw(t, "v"))))
			case "long-common-prefix": // two ids longer than the key that differ only after byte 32
				pre := rapid.SliceOfN(rapid.Byte(), 32, 40).Draw(t, "prefix")
				add(append(append([]byte{}, pre...), rapid.SliceOfN(rapid.Byte(), 1, 20).Draw(t, "tail1")...))
				add(append(append([]byte{}, pre...), rapid.SliceOfN(rapid.Byte(), 1, 20).Draw(t, "tail2")...))
			case "prefix-of-long": // a 32-byte id and a longer one starting with it
				pre := rapid.SliceOfN(rapid.Byte(), 32, 32).Draw(t, "prefix")
				add(pre)
				add(append(append([]byte{}, pre...), rapid.SliceOfN(rapid.Byte(), 1, 32).Draw(t, "tail")...))
			case "trailing-zeros": // ids that differ only in trailing zero bytes
				base := rapid.SliceOfN(rapid.Byte(), 1, 30).Draw(t, "base")
				add(base)
				z := rapid.IntRange(1, 2).Draw(t, "zeros")
				add(append(append([]byte{}, base...), make([]byte, z)...))
			case "key-boundary": // same first 31 bytes, different 32nd byte (the last byte the key keeps)
				pre := rapid.SliceOfN(rapid.Byte(), 31, 31).Draw(t, "prefix31")
				b1 := rapid.Byte().Draw(t, "b1")
				b2 := b1 ^ byte(rapid.IntRange(1, 255).Draw(t, "flip"))
				add(append(append([]byte{}, pre...), b1))
				add(append(append([]byte{}, pre...), b2))
			case "zero-split": // binary ids (<= 32 bytes) that are equal up to and including their first zero byte
				pre := nonZeroBytes(t, 0, 12, "pre")
				x, y := differentTails(t, 1, 31-len(pre), rapid.Bool().Draw(t, "sameLen"))
				add(cat(pre, []byte{0}, x))
				add(cat(pre, []byte{0}, y))
			case "binary-tlv": // type 0, length 4, VLAN, slot, port: two ports of one line card
				v := rapid.IntRange(0, 4095).Draw(t, "vlan")
				s, p := byte(rapid.IntRange(0, 16).Draw(t, "slot")), byte(rapid.IntRange(0, 254).Draw(t, "port"))
				add([]byte{0x00, 0x04, byte(v >> 8), byte(v), s, p})
				add([]byte{0x00, 0x04, byte(v >> 8), byte(v), s, p + 1})
			case "last-byte": // differ only in the last byte
				a := rapid.SliceOfN(rapid.Byte(), 1, 32).Draw(t, "a")
				b := append([]byte(nil), a...)
				b[len(b)-1] ^= byte(rapid.IntRange(1, 255).Draw(t, "flip"))
				add(a)
				add(b)
			case "fnv-collision":
				p := rapid.SampledFrom(fnvCollisions).Draw(t, "pair")
				add([]byte(p[0]))
				add([]byte(p[1]))
			}
		}
		return out
	})
}

// TestPropCircuitIDKeys: the slow path's table maintenance (AddCircuitIDMapping + AddCircuitIDSubscriber on
// lease, Remove* on expiry; see dhcp/server.go) is driven through a real Loader over real kernel maps for
// sets of distinct circuit-ids, one subscriber each.  After every step every circuit-id IN USE must lead to
// its own subscriber in both tables, and removing one must leave the others alone.
func TestPropCircuitIDKeys(t *testing.T) {
	vstat.Checks(1500, 50000)
	if tb, err := newCircuitTables(); err != nil {
		t.Fatalf("INCONCLUSIVE cannot create kernel maps for the circuit-id tables: %v", err)
	} else {
		tb.close()
	}
	rapid.Check(t, func(rt *rapid.T) {
		// shapes whose (listed) key sharing ends a case at the second lease are drawn in a third of the cases only
		shapeSet := []string{"random", "random", "text", "key-boundary", "zero-split", "binary-tlv", "last-byte"}
		special := rapid.Bool().Draw(rt, "specialShapes")
		for _, sh := range []struct{ shape, sig string }{{"long-common-prefix", sigCidTrunc}, {"prefix-of-long", sigCidTrunc}, {"trailing-zeros", sigCidPad}, {"fnv-collision", sigCidFNV}} {
			if !vstat.IsListed(sh.sig) || special {
				shapeSet = append(shapeSet, sh.shape)
			}
		}
		cids := genCircuitIDs(shapeSet).Draw(rt, "circuitIDs")
		tb, err := newCircuitTables()
		if err != nil {
			rt.Fatalf("INCONCLUSIVE cannot create kernel maps: %v", err)
		}
		defer tb.close()
		h := &hist{comp: "circuitid"}
		subs := make([]circuitSub, len(cids))
		for i, c := range cids {
			subs[i] = circuitSub{cid: c, mac: 0x020000000000 | uint64(i+1), asg: bngebpf.PoolAssignment{PoolID: uint32(i + 1), AllocatedIP: 0x0a000001 + uint32(i), LeaseExpiry: 1 << 40}}
			h.logf("cid%d=%x", i, c)
		}
		inHash := map[int]bool{}  // subscribers whose circuit-id is in use in circuit_id_map
		inFixed := map[int]bool{} // ... in circuit_id_subscribers
		shapes := map[string]bool{}
		for i := range cids {
			for j := i + 1; j < len(cids); j++ {
				if bngebpf.MakeCircuitIDKey(cids[i]) == bngebpf.MakeCircuitIDKey(cids[j]) {
					shapes["pair-sharing-fixed-key:"+sharedKind(cids[i], cids[j])] = true
				}
				if bngebpf.HashCircuitID(cids[i]) == bngebpf.HashCircuitID(cids[j]) {
					shapes["pair-sharing-hash-key"] = true
				}
				if z := bytes.IndexByte(cids[i], 0); z >= 0 && len(cids[j]) > z && bytes.Equal(cids[i][:z+1], cids[j][:z+1]) {
					shapes["pair-equal-up-to-first-zero"] = true
				}
				if n := len(cids[i]); n == len(cids[j]) && bytes.Equal(cids[i][:n-1], cids[j][:n-1]) {
					shapes["pair-differing-in-last-byte-only"] = true
				}
			}
		}
		contended, reacquired := false, false
		removedOnce := map[int]bool{}
		// evidence for the "entry is gone" classification: an entry can only have been removed by the expiry of a circuit-id
		// sharing its key if that expiry happened AFTER the entry's own latest lease; otherwise the loss has another cause
		tick := 0
		leasedAt, expiredAt := map[int]int{}, map[int]int{}
		check := func(rt *rapid.T, op string) bool {
			for i := range subs {
				if inFixed[i] {
					got, err := tb.loader.GetCircuitIDSubscriber(subs[i].cid)
					if err != nil {
						// gone although never expired: some other circuit-id's expiry deleted the key they share?
						for j := range subs {
							if j != i && expiredAt[j] > leasedAt[i] && bngebpf.MakeCircuitIDKey(subs[i].cid) == bngebpf.MakeCircuitIDKey(subs[j].cid) {
								return !h.fail(rt, "fixed-key-shared/"+sharedKind(subs[i].cid, subs[j].cid), "after %s: circuit-id %d (%x, %d bytes) is in use but its entry is gone (%v): circuit-id %d (%x, %d bytes) maps to the same key %x and was expired", op, i, subs[i].cid, len(subs[i].cid), err, j, subs[j].cid, len(subs[j].cid), bngebpf.MakeCircuitIDKey(subs[i].cid))
							}
						}
						return !h.fail(rt, "fixed-key-lost/"+op, "after %s: circuit-id %d (%x) is in use but GetCircuitIDSubscriber fails: %v", op, i, subs[i].cid, err)
					}
					if got.PoolID != subs[i].asg.PoolID || got.AllocatedIP != subs[i].asg.AllocatedIP {
						j := int(got.PoolID) - 1
						kind := "other"
						if j >= 0 && j < len(subs) {
							kind = sharedKind(subs[i].cid, subs[j].cid)
						}
						return !h.fail(rt, "fixed-key-shared/"+kind, "after %s: looking up circuit-id %d (%x, %d bytes) returns the assignment of subscriber %d (circuit-id %x, %d bytes): both map to key %x", op, i, subs[i].cid, len(subs[i].cid), j, subs[j].cid, len(subs[j].cid), bngebpf.MakeCircuitIDKey(subs[i].cid))
					}
				}
				if inHash[i] {
					got, err := tb.loader.GetCircuitIDMapping(subs[i].cid)
					if err != nil {
						for j := range subs {
							if j != i && expiredAt[j] > leasedAt[i] && bngebpf.HashCircuitID(subs[i].cid) == bngebpf.HashCircuitID(subs[j].cid) {
								return !h.fail(rt, "hash-key-shared/"+hashShareKind(subs[i].cid, subs[j].cid), "after %s: circuit-id %d (%q) is in use but its entry is gone (%v): circuit-id %d (%q) has the same HashCircuitID %016x and was expired (independent FNV-1a-64: %016x / %016x)", op, i, subs[i].cid, err, j, subs[j].cid, bngebpf.HashCircuitID(subs[i].cid), fnv64(subs[i].cid), fnv64(subs[j].cid))
							}
						}
						return !h.fail(rt, "hash-key-lost/"+op, "after %s: circuit-id %d (%x) is in use but GetCircuitIDMapping fails: %v", op, i, subs[i].cid, err)
					}
					if got != subs[i].mac {
						// whose MAC is it?  Only a pair that the independent FNV-1a-64 also maps to one value is the listed collision.
						kind := "not-an-fnv1a64-collision"
						for j := range subs {
							if j != i && subs[j].mac == got {
								kind = hashShareKind(subs[i].cid, subs[j].cid)
							}
						}
						return !h.fail(rt, "hash-key-shared/"+kind, "after %s: looking up circuit-id %d (%q) returns MAC %012x of another subscriber: HashCircuitID = %016x (independent FNV-1a-64 of this id: %016x)", op, i, subs[i].cid, got, bngebpf.HashCircuitID(subs[i].cid), fnv64(subs[i].cid))
					}
				}
			}
			return true
		}
		idx := rapid.IntRange(0, len(subs)-1)
		rt.Repeat(guard(&h.dead, map[string]func(*rapid.T){
			"lease": func(rt *rapid.T) {
				i := idx.Draw(rt, "i")
				e1 := tb.loader.AddCircuitIDMapping(subs[i].cid, subs[i].mac)
				asg := subs[i].asg
				e2 := tb.loader.AddCircuitIDSubscriber(subs[i].cid, &asg)
				h.logf("lease(cid%d)=%s,%s", i, okerr(e1), okerr(e2))
				tick++
				leasedAt[i] = tick
				// an id the table refuses is simply not in use there
				if e1 == nil {
					inHash[i] = true
				}
				if e2 == nil {
					inFixed[i] = true
				}
				for j := range subs {
					if j != i && (inFixed[j] || inHash[j]) {
						contended = contended || bngebpf.MakeCircuitIDKey(subs[i].cid) == bngebpf.MakeCircuitIDKey(subs[j].cid) || bngebpf.HashCircuitID(subs[i].cid) == bngebpf.HashCircuitID(subs[j].cid)
					}
				}
				if removedOnce[i] {
					reacquired = true
				}
				check(rt, "lease")
			},
			"expire": func(rt *rapid.T) {
				i := idx.Draw(rt, "i")
				e1 := tb.loader.RemoveCircuitIDMapping(subs[i].cid)
				e2 := tb.loader.RemoveCircuitIDSubscriber(subs[i].cid)
				h.logf("expire(cid%d)=%s,%s", i, okerr(e1), okerr(e2))
				tick++
				expiredAt[i] = tick
				if inFixed[i] && e2 != nil {
					if h.fail(rt, "fixed-key-lost/expire", "RemoveCircuitIDSubscriber(cid%d) fails although it is in use: %v", i, e2) {
						return
					}
				}
				if inFixed[i] || inHash[i] {
					removedOnce[i] = true
				}
				delete(inHash, i)
				delete(inFixed, i)
				check(rt, "expire")
			},
		}))
		cls := []string{"circuitid"}
		for s := range shapes {
			cls = append(cls, "circuitid:"+s)
		}
		if len(shapes) == 0 {
			cls = append(cls, "circuitid:all-keys-distinct")
		}
		nt := contended || reacquired
		if nt {
			cls = append(cls, "nt:reacquired-or-contended", "nt:"+cls[0])
		}
		ops := h.ops
		vstat.Case(nt, h.fp(), func() any { return map[string]any{"component": "circuitid", "ops": ops} }, cls...)
	})
}
