package c20

// Secondary-index agreement for the three tables the property anchors name besides the key allocators:
// subscriber.Manager (byMAC/byIP), state.Store (leaseByIP/leaseByMAC, sessionByMAC/sessionByIP) and
// allocator.MemoryAllocationStore (byPool/bySubscriber/byIP).
//
// Oracle in all three: forward -> reverse (the key stored in a live record leads back to that record, or for
// MACs to a live record of that MAC) and reverse -> forward (whatever a key lookup returns is a live record
// that really carries that key); removing one record leaves every other lookup unchanged.

import (
	"context"
	"errors"
	"fmt"
	"net"
	"sort"
	"testing"
	"time"

	"github.com/codelaboratoryltd/bng/pkg/allocator"
	"github.com/codelaboratoryltd/bng/pkg/state"
	"github.com/codelaboratoryltd/bng/pkg/subscriber"
	"go.uber.org/zap"
	"pgregory.net/rapid"

	"bngverif/internal/vstat"
)

var idxMACs = []net.HardwareAddr{{2, 0, 0, 0, 1, 1}, {2, 0, 0, 0, 1, 2}, {2, 0, 0, 0, 1, 3}, {2, 0, 0, 0, 1, 4}}

// ---------------------------------------------------------------------------------------------------------
// subscriber.Manager

// fakeAddrAlloc is the AddressAllocator the manager is given: per-pool lowest-free-first, sticky per
// (session, pool) like the Nexus adapter in cmd/bng/demo.go, never hands a live address to a second session.
type fakeAddrAlloc struct {
	used   map[string]string // ip -> "session|pool"
	bySess map[string]string // "session|pool" -> ip
	ever   []string          // every address handed out, in order of first appearance
	freed  map[string]string // ip -> session that last released it
	reused bool
}

func newFakeAddrAlloc() *fakeAddrAlloc {
	return &fakeAddrAlloc{used: map[string]string{}, bySess: map[string]string{}, freed: map[string]string{}}
}

func (f *fakeAddrAlloc) pick(session, poolID string, mk func(i int) net.IP) net.IP {
	k := session + "|" + poolID
	if ip, ok := f.bySess[k]; ok {
		return net.ParseIP(ip)
	}
	for i := 1; i < 250; i++ {
		ip := mk(i)
		if _, taken := f.used[ip.String()]; taken {
			continue
		}
		f.used[ip.String()] = k
		f.bySess[k] = ip.String()
		if prev, ok := f.freed[ip.String()]; ok && prev != session {
			f.reused = true
		}
		delete(f.freed, ip.String())
		seen := false
		for _, e := range f.ever {
			if e == ip.String() {
				seen = true
			}
		}
		if !seen {
			f.ever = append(f.ever, ip.String())
		}
		return ip
	}
	return nil
}

func (f *fakeAddrAlloc) AllocateIPv4(ctx context.Context, s *subscriber.Session, poolID string) (net.IP, net.IPMask, net.IP, error) {
	third := byte(1)
	if poolID == "p2" {
		third = 2
	}
	ip := f.pick(s.ID, poolID, func(i int) net.IP { return net.IPv4(10, 20, third, byte(i)).To4() })
	if ip == nil {
		return nil, nil, nil, errors.New("pool exhausted")
	}
	return ip, net.CIDRMask(24, 32), net.IPv4(10, 20, third, 254).To4(), nil
}

func (f *fakeAddrAlloc) AllocateIPv6(ctx context.Context, s *subscriber.Session, poolID string) (net.IP, *net.IPNet, error) {
	ip := f.pick(s.ID, poolID, func(i int) net.IP { return net.ParseIP(fmt.Sprintf("2001:db8:20::%x", i)) })
	if ip == nil {
		return nil, nil, errors.New("pool exhausted")
	}
	return ip, nil, nil
}

func (f *fakeAddrAlloc) release(ip net.IP) error {
	if k, ok := f.used[ip.String()]; ok {
		delete(f.used, ip.String())
		delete(f.bySess, k)
		sess := k
		for i := range k {
			if k[i] == '|' {
				sess = k[:i]
			}
		}
		f.freed[ip.String()] = sess
	}
	return nil
}
func (f *fakeAddrAlloc) ReleaseIPv4(ctx context.Context, ip net.IP) error { return f.release(ip) }
func (f *fakeAddrAlloc) ReleaseIPv6(ctx context.Context, ip net.IP) error { return f.release(ip) }

const sigSubMgrStaleIP = "C20/submgr/byIP-stale/AssignAddress"

// TestPropSubscriberManager: CreateSession / AssignAddress (incl. re-assignment from another pool, as
// cmd/bng/demo.go does on activation) / TerminateSession histories over 4 MACs.
func TestPropSubscriberManager(t *testing.T) {
	vstat.Checks(2000, 60000)
	ctx := context.Background()
	rapid.Check(t, func(rt *rapid.T) {
		h := &hist{comp: "submgr"}
		fa := newFakeAddrAlloc()
		m := subscriber.NewManager(subscriber.ManagerConfig{MaxSessions: 64}, nil, fa, zap.NewNop())
		live := map[string]string{} // session id -> MAC
		var order []string          // session ids in creation order (deterministic iteration)
		macFreed := map[string]string{}
		nt, contended, moved, mutated := false, false, false, false
		allowMove := !vstat.IsListed(sigSubMgrStaleIP) || rapid.IntRange(0, 2).Draw(rt, "allowPoolChange") == 0
		lastPool := map[string]string{}
		liveIDs := func() []string {
			var out []string
			for _, id := range order {
				if _, ok := live[id]; ok {
					out = append(out, id)
				}
			}
			return out
		}
		check := func(rt *rapid.T, op string) bool {
			for _, id := range liveIDs() {
				s, ok := m.GetSession(id)
				if !ok || s == nil || s.ID != id {
					return !h.fail(rt, "session-lost/"+op, "GetSession(%s) fails for a live session", id)
				}
				for _, ip := range []net.IP{s.IPv4, s.IPv6} {
					if ip == nil {
						continue
					}
					r, ok := m.GetSessionByIP(ip)
					if !ok || r != s {
						return !h.fail(rt, "byIP-lost/"+op, "session %s carries %s but GetSessionByIP(%s) = %v,%v", id, ip, ip, sessID(r), ok)
					}
				}
				r, ok := m.GetSessionByMAC(s.MAC)
				if !ok || r == nil || r.MAC.String() != s.MAC.String() || live[r.ID] == "" {
					return !h.fail(rt, "byMAC-lost/"+op, "session %s has MAC %s but GetSessionByMAC = %v,%v", id, s.MAC, sessID(r), ok)
				}
			}
			for _, ipS := range fa.ever {
				ip := net.ParseIP(ipS)
				r, ok := m.GetSessionByIP(ip)
				if !ok {
					continue
				}
				cur, _ := m.GetSession(sessID(r))
				if r == nil || cur != r || live[r.ID] == "" || !(r.IPv4.Equal(ip) || r.IPv6.Equal(ip)) {
					have := "no live session"
					if r != nil {
						have = fmt.Sprintf("session %s (live=%v) whose addresses are %v / %v", r.ID, live[r.ID] != "", r.IPv4, r.IPv6)
					}
					return !h.fail(rt, "byIP-stale/"+op, "GetSessionByIP(%s) reports a hit but leads to %s", ip, have)
				}
			}
			for _, mac := range idxMACs {
				r, ok := m.GetSessionByMAC(mac)
				if ok && (r == nil || live[r.ID] != mac.String()) {
					return !h.fail(rt, "byMAC-stale/"+op, "GetSessionByMAC(%s) reports a hit but leads to %v", mac, sessID(r))
				}
			}
			return true
		}
		rt.Repeat(guard(&h.dead, map[string]func(*rapid.T){
			"create": func(rt *rapid.T) {
				mac := rapid.SampledFrom(idxMACs).Draw(rt, "mac")
				has := false
				for _, mm := range live {
					if mm == mac.String() {
						has = true
					}
				}
				s, err := m.CreateSession(ctx, &subscriber.SessionRequest{MAC: mac, Type: subscriber.SessionTypeIPoE})
				h.logf("create(%s)=%s", mac, okerr(err))
				if has {
					contended = true
				}
				if err == nil {
					if f, ok := macFreed[mac.String()]; ok && f != s.ID {
						nt = true
					}
					live[s.ID] = mac.String()
					order = append(order, s.ID)
				} else if !has {
					h.fail(rt, "free-mac-rejected/CreateSession", "CreateSession(%s) failed (%v) although no live session has that MAC", mac, err)
					return
				}
				check(rt, "CreateSession")
			},
			"assign": func(rt *rapid.T) {
				ids := liveIDs()
				if len(ids) == 0 {
					rt.Skip("no session")
				}
				i := rapid.IntRange(0, len(ids)-1).Draw(rt, "session")
				pool := rapid.SampledFrom([]string{"p1", "p1", "p2"}).Draw(rt, "pool")
				if lp, ok := lastPool[ids[i]]; ok && lp != pool {
					if !allowMove {
						pool = lp
					} else {
						moved = true
					}
				}
				v6 := rapid.SampledFrom([]string{"", "", "v6"}).Draw(rt, "v6pool")
				err := m.AssignAddress(ctx, ids[i], pool, v6)
				lastPool[ids[i]] = pool
				h.logf("assign(#%d,%s,%s)=%s", indexOf(order, ids[i]), pool, v6, okerr(err))
				check(rt, "AssignAddress")
			},
			// the manager hands out its own *Session but has no submit-a-record update: sessions change through
			// id-addressed mutators.  Each is driven on any live session; the record the caller holds (the pointer
			// GetSession returned) gets a non-key field modified in place first, as a caller decorating it would.
			"mutate": func(rt *rapid.T) {
				ids := liveIDs()
				if len(ids) == 0 {
					rt.Skip("no session")
				}
				i := rapid.IntRange(0, len(ids)-1).Draw(rt, "session")
				if p, ok := m.GetSession(ids[i]); ok && rapid.Bool().Draw(rt, "decorate") {
					p.Username = "user-" + rapid.StringN(1, 4, -1).Draw(rt, "user")
				}
				how := rapid.SampledFrom([]string{"activate", "walled", "clearWalled", "activity"}).Draw(rt, "how")
				var err error
				switch how {
				case "activate":
					err = m.ActivateSession(ids[i])
				case "walled":
					err = m.SetWalledGarden(ids[i], "verif")
				case "clearWalled":
					err = m.ClearWalledGarden(ids[i])
				default:
					err = m.UpdateActivity(ids[i], 1, 2, 3, 4)
				}
				mutated = true
				h.logf("%s(#%d)=%s", how, indexOf(order, ids[i]), okerr(err))
				check(rt, "Mutate/"+how)
			},
			"terminate": func(rt *rapid.T) {
				ids := liveIDs()
				if len(ids) == 0 {
					rt.Skip("no session")
				}
				i := rapid.IntRange(0, len(ids)-1).Draw(rt, "session")
				err := m.TerminateSession(ctx, ids[i], subscriber.TerminateReason("verif"))
				h.logf("terminate(#%d)=%s", indexOf(order, ids[i]), okerr(err))
				macFreed[live[ids[i]]] = ids[i]
				delete(live, ids[i])
				check(rt, "TerminateSession")
			},
		}))
		cls := []string{"submgr"}
		if moved {
			cls = append(cls, "submgr:address-reassigned-from-other-pool")
		}
		if contended {
			cls = append(cls, "submgr:mac-contended")
		}
		if mutated {
			cls = append(cls, "submgr:id-addressed-mutators")
		}
		nontrivial := nt || fa.reused || contended
		if nontrivial {
			cls = append(cls, "nt:reacquired-or-contended", "nt:"+cls[0])
		}
		ops := h.ops
		vstat.Case(nontrivial, h.fp(), func() any { return map[string]any{"component": "submgr", "ops": ops} }, cls...)
	})
}

func sessID(s *subscriber.Session) string {
	if s == nil {
		return "<nil>"
	}
	return s.ID
}

func indexOf(l []string, s string) int {
	for i, x := range l {
		if x == s {
			return i
		}
	}
	return -1
}

// ---------------------------------------------------------------------------------------------------------
// state.Store

const (
	sigStoreLeaseMAC   = "C20/statestore/lease-mac-index-lost/DeleteLease"
	sigStoreSessMAC    = "C20/statestore/session-mac-index-lost/DeleteSession"
	sigStoreSessIPMiss = "C20/statestore/session-ip-index-lost/UpdateSession"
	sigStoreSessIPOld  = "C20/statestore/session-ip-index-stale/UpdateSession"

	// in-place update (the pointer Get returned is mutated and handed back) that changes MAC or address: the
	// store cannot see the previous key any more and leaves it indexed; a key lookup that leads to a record which
	// does not carry that key (any more), or to a deleted record ((nil, nil): the dead id left under the old MAC
	// can become the newest entry of that MAC's list several deletes later), is reported under these once such an
	// update happened; the other "lost" kinds - a live record's CURRENT key is not indexed - keep their own signatures
	sigStoreInPlaceLease = "C20/statestore/old-key-still-indexed-after-in-place-key-change/UpdateLease"
	sigStoreInPlaceSess  = "C20/statestore/old-key-still-indexed-after-in-place-key-change/UpdateSession"
)

type storeRec struct {
	id  string
	mac string
	ip  string // "" = none
	// inPlaceOlder: was updated in place while a NEWER record of the same MAC existed
	inPlaceOlder bool
}

// TestPropStateStore: leases and sessions of state.Store: create (a second record for a MAC that already has
// one: new lease before the old one is cleaned up, IPoE + PPPoE session of one CPE) / update through a
// modified copy (session learns or changes its address after creation) / delete.
func TestPropStateStore(t *testing.T) {
	vstat.Checks(2000, 60000)
	rapid.Check(t, func(rt *rapid.T) {
		h := &hist{comp: "statestore"}
		st := state.NewStore(state.DefaultConfig(), zap.NewNop())
		listedMAC := vstat.IsListed(sigStoreLeaseMAC) || vstat.IsListed(sigStoreSessMAC)
		listedIP := vstat.IsListed(sigStoreSessIPMiss) || vstat.IsListed(sigStoreSessIPOld)
		allowDupMAC := !listedMAC || rapid.Bool().Draw(rt, "allowSecondRecordPerMAC")
		allowIPUpdate := !listedIP || rapid.IntRange(0, 2).Draw(rt, "allowSessionAddressUpdate") == 0
		var leases, sessions []*storeRec // creation order; removed entries are nil-ed
		liveOf := func(l []*storeRec) []*storeRec {
			var out []*storeRec
			for _, r := range l {
				if r != nil {
					out = append(out, r)
				}
			}
			return out
		}
		freedIP := map[string]string{} // "kind|ip" -> record id that gave it up
		nt, dupMAC, ipUpdated := false, false, false
		// in-place updates that change a key are a listed finding on the pinned tree: kept to a quarter of the cases
		inPlaceKeyChange := !(vstat.IsListed(sigStoreInPlaceLease) || vstat.IsListed(sigStoreInPlaceSess)) || rapid.IntRange(0, 3).Draw(rt, "allowInPlaceKeyChange") == 0
		taintL, taintS := false, false // an in-place key-changing update happened on the lease / session table
		cl := map[string]bool{}
		lk := func(kind, op string) string {
			if taintL {
				return "old-key-still-indexed-after-in-place-key-change/UpdateLease"
			}
			return kind + "/" + op
		}
		sk := func(kind, op string) string {
			if taintS {
				return "old-key-still-indexed-after-in-place-key-change/UpdateSession"
			}
			return kind + "/" + op
		}
		freeIP := func(rt *rapid.T, kind string, recs []*storeRec, third byte) string {
			// a disciplined caller never stores one address for two live records; prefer released addresses
			var cands []string
			for i := 1; i <= 6; i++ {
				ip := net.IPv4(10, 30, third, byte(i)).String()
				used := false
				for _, r := range liveOf(recs) {
					if r.ip == ip {
						used = true
					}
				}
				if !used {
					cands = append(cands, ip)
				}
			}
			if len(cands) == 0 {
				return ""
			}
			_ = kind
			return rapid.SampledFrom(cands).Draw(rt, "ip")
		}
		hasMAC := func(recs []*storeRec, mac string) bool {
			for _, r := range liveOf(recs) {
				if r.mac == mac {
					return true
				}
			}
			return false
		}
		check := func(rt *rapid.T, op string) bool {
			// leases
			for _, r := range liveOf(leases) {
				l, err := st.GetLease(r.id)
				if err != nil || l == nil || l.MAC.String() != r.mac || l.IPv4.String() != r.ip {
					return !h.fail(rt, "lease-lost/"+op, "GetLease(%s) = %v, %v; want MAC %s address %s", r.id, l, err, r.mac, r.ip)
				}
				b, err := st.GetLeaseByIP(net.ParseIP(r.ip))
				if err != nil || b == nil || b.ID != r.id {
					return !h.fail(rt, "lease-ip-index-lost/"+op, "lease %s holds %s but GetLeaseByIP = %v, %v", r.id, r.ip, leaseID(b), err)
				}
			}
			for i := 1; i <= 6; i++ {
				ip := net.IPv4(10, 30, 1, byte(i))
				b, err := st.GetLeaseByIP(ip)
				if err != nil {
					continue
				}
				ok := false
				for _, r := range liveOf(leases) {
					if b != nil && r.id == b.ID && r.ip == ip.String() {
						ok = true
					}
				}
				if !ok {
					return !h.fail(rt, lk("lease-ip-index-stale", op), "GetLeaseByIP(%s) reports a hit but leads to %v, not a live lease of that address", ip, leaseID(b))
				}
			}
			for _, mac := range idxMACs {
				b, err := st.GetLeaseByMAC(mac)
				if err == nil {
					ok := false
					for _, r := range liveOf(leases) {
						if b != nil && r.id == b.ID && r.mac == mac.String() {
							ok = true
						}
					}
					if !ok && b == nil && hasMAC(leases, mac.String()) {
						// (nil, nil): the index names an id that no longer exists although the MAC has a live lease
						return !h.fail(rt, lk("lease-mac-index-lost", op), "a live lease has MAC %s but GetLeaseByMAC returns (nil, nil): the index leads to a deleted lease", mac)
					}
					if !ok {
						return !h.fail(rt, lk("lease-mac-index-stale", op), "GetLeaseByMAC(%s) reports a hit but leads to %v, not a live lease of that MAC", mac, leaseID(b))
					}
				} else if hasMAC(leases, mac.String()) {
					return !h.fail(rt, "lease-mac-index-lost/"+op, "a live lease has MAC %s but GetLeaseByMAC fails: %v", mac, err)
				}
			}
			// sessions
			for _, r := range liveOf(sessions) {
				s, err := st.GetSession(r.id)
				if err != nil || s == nil || s.MAC.String() != r.mac {
					return !h.fail(rt, "session-lost/"+op, "GetSession(%s) = %v, %v", r.id, s, err)
				}
				if r.ip != "" {
					b, err := st.GetSessionByIP(net.ParseIP(r.ip))
					if err != nil || b == nil || b.ID != r.id {
						return !h.fail(rt, "session-ip-index-lost/"+op, "session %s carries %s (GetSession(%s).IPv4 = %v) but GetSessionByIP = %v, %v", r.id, r.ip, r.id, s.IPv4, sessionID(b), err)
					}
				}
			}
			for i := 1; i <= 6; i++ {
				ip := net.IPv4(10, 30, 2, byte(i))
				b, err := st.GetSessionByIP(ip)
				if err != nil {
					continue
				}
				ok := false
				for _, r := range liveOf(sessions) {
					if b != nil && r.id == b.ID && r.ip == ip.String() {
						ok = true
					}
				}
				if !ok {
					return !h.fail(rt, sk("session-ip-index-stale", op), "GetSessionByIP(%s) reports a hit but leads to %v, not a live session with that address", ip, sessionID(b))
				}
			}
			for _, mac := range idxMACs {
				b, err := st.GetSessionByMAC(mac)
				if err == nil {
					ok := false
					for _, r := range liveOf(sessions) {
						if b != nil && r.id == b.ID && r.mac == mac.String() {
							ok = true
						}
					}
					if !ok && b == nil && hasMAC(sessions, mac.String()) {
						return !h.fail(rt, sk("session-mac-index-lost", op), "a live session has MAC %s but GetSessionByMAC returns (nil, nil): the index leads to a deleted session", mac)
					}
					if !ok {
						return !h.fail(rt, sk("session-mac-index-stale", op), "GetSessionByMAC(%s) reports a hit but leads to %v, not a live session of that MAC", mac, sessionID(b))
					}
				} else if hasMAC(sessions, mac.String()) {
					return !h.fail(rt, "session-mac-index-lost/"+op, "a live session has MAC %s but GetSessionByMAC fails: %v", mac, err)
				}
			}
			return true
		}
		pickLive := func(rt *rapid.T, l []*storeRec) (int, *storeRec) {
			var idx []int
			for i, r := range l {
				if r != nil {
					idx = append(idx, i)
				}
			}
			if len(idx) == 0 {
				rt.Skip("nothing live")
			}
			i := rapid.SampledFrom(idx).Draw(rt, "rec")
			return i, l[i]
		}
		// pickForUpdate: any live record; every other time (if there is one) a record of a MAC that has several live
		// records, at a drawn position among them (oldest / middle / newest).  newer reports whether a newer record
		// of the same MAC exists.
		pickForUpdate := func(rt *rapid.T, l []*storeRec) (r *storeRec, pos string, newer bool) {
			groups := map[string][]*storeRec{}
			var multi []string
			for _, x := range liveOf(l) {
				groups[x.mac] = append(groups[x.mac], x)
				if len(groups[x.mac]) == 2 {
					multi = append(multi, x.mac)
				}
			}
			if len(multi) > 0 && rapid.Bool().Draw(rt, "fromMultiMAC") {
				g := groups[rapid.SampledFrom(multi).Draw(rt, "multiMAC")]
				i := rapid.IntRange(0, len(g)-1).Draw(rt, "position")
				pos = "middle"
				if i == 0 {
					pos = "oldest"
				} else if i == len(g)-1 {
					pos = "newest"
				}
				return g[i], pos, i < len(g)-1
			}
			_, r = pickLive(rt, l)
			g := groups[r.mac]
			if len(g) == 1 {
				return r, "single", false
			}
			return r, "some", g[len(g)-1] != r
		}
		otherMAC := func(rt *rapid.T, cur string) net.HardwareAddr {
			var c []net.HardwareAddr
			for _, m := range idxMACs {
				if m.String() != cur {
					c = append(c, m)
				}
			}
			return rapid.SampledFrom(c).Draw(rt, "newMAC")
		}
		noteTake := func(kind, ip, id string) {
			if f, ok := freedIP[kind+"|"+ip]; ok && f != id {
				nt = true
			}
			delete(freedIP, kind+"|"+ip)
		}
		rt.Repeat(guard(&h.dead, map[string]func(*rapid.T){
			"createLease": func(rt *rapid.T) {
				mac := rapid.SampledFrom(idxMACs).Draw(rt, "mac")
				if hasMAC(leases, mac.String()) {
					if !allowDupMAC {
						rt.Skip("one lease per MAC in this case")
					}
					dupMAC = true
				}
				ip := freeIP(rt, "lease", leases, 1)
				if ip == "" {
					rt.Skip("no free address")
				}
				l := &state.Lease{MAC: mac, IPv4: net.ParseIP(ip).To4(), SubscriberID: "sub-" + mac.String(), PoolID: "pool"}
				err := st.CreateLease(l)
				h.logf("createLease(%s,%s)=%s", mac, ip, okerr(err))
				if err != nil {
					rt.Fatalf("INCONCLUSIVE CreateLease: %v", err)
				}
				leases = append(leases, &storeRec{id: l.ID, mac: mac.String(), ip: ip})
				noteTake("lease", ip, l.ID)
				check(rt, "CreateLease")
			},
			"updateLease": func(rt *rapid.T) {
				r, pos, newer := pickForUpdate(rt, leases)
				cur, err := st.GetLease(r.id)
				if err != nil {
					rt.Fatalf("INCONCLUSIVE GetLease: %v", err)
				}
				inPlace := rapid.Bool().Draw(rt, "inPlace")
				change := rapid.SampledFrom([]string{"none", "none", "ip", "mac"}).Draw(rt, "change")
				if inPlace && change != "none" && !inPlaceKeyChange {
					change = "none"
				}
				newIP, newMAC := r.ip, r.mac
				var macVal net.HardwareAddr
				if change == "ip" {
					if ip := freeIP(rt, "lease", leases, 1); ip != "" {
						newIP = ip
					} else {
						change = "none"
					}
				}
				if change == "mac" {
					macVal = otherMAC(rt, r.mac)
					if hasMAC(leases, macVal.String()) && !allowDupMAC {
						change, macVal = "none", nil
					} else {
						newMAC = macVal.String()
					}
				}
				target := cur // in place: the pointer the store handed out is mutated and handed back
				if !inPlace {
					cp := *cur
					target = &cp
				}
				target.Hostname = "host-" + rapid.StringN(1, 4, -1).Draw(rt, "hostname")
				if newIP != r.ip {
					target.IPv4 = net.ParseIP(newIP).To4()
				}
				if macVal != nil {
					target.MAC = macVal
				}
				err = st.UpdateLease(target)
				mode := "copy"
				if inPlace {
					mode = "in-place"
				}
				h.logf("updateLease(#%d,%s,%s,%s->%s,%s->%s)=%s", indexRec(leases, r), mode, pos, r.ip, newIP, r.mac, newMAC, okerr(err))
				cl["statestore:update:"+mode] = true
				if change != "none" {
					cl["statestore:update:key-changed"] = true
					cl["statestore:update:"+mode+"-key-changed"] = true
					if inPlace {
						taintL = true
					}
				}
				if newer {
					cl["statestore:update-of-older-record-of-multi-mac"] = true
					if inPlace {
						r.inPlaceOlder = true
					}
				}
				if err == nil {
					if newIP != r.ip {
						freedIP["lease|"+r.ip] = r.id
						noteTake("lease", newIP, r.id)
						r.ip = newIP
					}
					if newMAC != r.mac {
						if hasMAC(leases, newMAC) {
							dupMAC = true
						}
						r.mac = newMAC
					}
				}
				check(rt, "UpdateLease")
			},
			"renewLease": func(rt *rapid.T) {
				r, _, _ := pickForUpdate(rt, leases)
				err := st.RenewLease(r.id, time.Hour)
				h.logf("renewLease(#%d)=%s", indexRec(leases, r), okerr(err))
				check(rt, "RenewLease")
			},
			"deleteLease": func(rt *rapid.T) {
				i, r := pickLive(rt, leases)
				err := st.DeleteLease(r.id)
				h.logf("deleteLease(#%d)=%s", i, okerr(err))
				freedIP["lease|"+r.ip] = r.id
				leases[i] = nil
				if r.inPlaceOlder && hasMAC(leases, r.mac) {
					cl["statestore:in-place-updated-older-record-deleted-while-mac-still-live"] = true
				}
				check(rt, "DeleteLease")
			},
			"createSession": func(rt *rapid.T) {
				mac := rapid.SampledFrom(idxMACs).Draw(rt, "mac")
				if hasMAC(sessions, mac.String()) {
					if !allowDupMAC {
						rt.Skip("one session per MAC in this case")
					}
					dupMAC = true
				}
				s := &state.Session{MAC: mac, SubscriberID: "sub-" + mac.String(), Type: state.SessionType(rapid.SampledFrom([]string{"ipoe", "pppoe"}).Draw(rt, "type"))}
				ip := ""
				if rapid.Bool().Draw(rt, "withAddress") {
					ip = freeIP(rt, "session", sessions, 2)
					if ip != "" {
						s.IPv4 = net.ParseIP(ip).To4()
					}
				}
				err := st.CreateSession(s)
				h.logf("createSession(%s,%s)=%s", mac, ip, okerr(err))
				if err != nil {
					rt.Fatalf("INCONCLUSIVE CreateSession: %v", err)
				}
				sessions = append(sessions, &storeRec{id: s.ID, mac: mac.String(), ip: ip})
				if ip != "" {
					noteTake("session", ip, s.ID)
				}
				check(rt, "CreateSession")
			},
			"updateSession": func(rt *rapid.T) {
				r, pos, newer := pickForUpdate(rt, sessions)
				cur, err := st.GetSession(r.id)
				if err != nil {
					rt.Fatalf("INCONCLUSIVE GetSession: %v", err)
				}
				inPlace := rapid.Bool().Draw(rt, "inPlace")
				change := rapid.SampledFrom([]string{"none", "none", "ip", "mac"}).Draw(rt, "change")
				if change == "ip" && !allowIPUpdate {
					change = "none"
				}
				if inPlace && change != "none" && !inPlaceKeyChange {
					change = "none"
				}
				newIP, newMAC := r.ip, r.mac
				var macVal net.HardwareAddr
				if change == "ip" {
					// the session learns its address after creation (DHCP/IPCP finished) or gets a new one
					if ip := freeIP(rt, "session", sessions, 2); ip != "" {
						newIP = ip
					} else {
						change = "none"
					}
				}
				if change == "mac" {
					macVal = otherMAC(rt, r.mac)
					if hasMAC(sessions, macVal.String()) && !allowDupMAC {
						change, macVal = "none", nil
					} else {
						newMAC = macVal.String()
					}
				}
				target := cur
				if !inPlace {
					cp := *cur
					target = &cp
				}
				target.Username = "user-" + rapid.StringN(1, 4, -1).Draw(rt, "user")
				if newIP != r.ip {
					target.IPv4 = net.ParseIP(newIP).To4()
				}
				if macVal != nil {
					target.MAC = macVal
				}
				err = st.UpdateSession(target)
				mode := "copy"
				if inPlace {
					mode = "in-place"
				}
				h.logf("updateSession(#%d,%s,%s,%s->%s,%s->%s)=%s", indexRec(sessions, r), mode, pos, r.ip, newIP, r.mac, newMAC, okerr(err))
				cl["statestore:update:"+mode] = true
				if change != "none" {
					cl["statestore:update:key-changed"] = true
					cl["statestore:update:"+mode+"-key-changed"] = true
					if inPlace {
						taintS = true
					}
				}
				if newer {
					cl["statestore:update-of-older-record-of-multi-mac"] = true
					if inPlace {
						r.inPlaceOlder = true
					}
				}
				if err == nil {
					if newIP != r.ip {
						ipUpdated = true
						if r.ip != "" {
							freedIP["session|"+r.ip] = r.id
						}
						noteTake("session", newIP, r.id)
						r.ip = newIP
					}
					if newMAC != r.mac {
						if hasMAC(sessions, newMAC) {
							dupMAC = true
						}
						r.mac = newMAC
					}
				}
				check(rt, "UpdateSession")
			},
			"sessionActivity": func(rt *rapid.T) {
				r, _, _ := pickForUpdate(rt, sessions)
				err := st.UpdateSessionActivity(r.id, 10, 20)
				h.logf("sessionActivity(#%d)=%s", indexRec(sessions, r), okerr(err))
				check(rt, "UpdateSessionActivity")
			},
			"deleteSession": func(rt *rapid.T) {
				i, r := pickLive(rt, sessions)
				err := st.DeleteSession(r.id)
				h.logf("deleteSession(#%d)=%s", i, okerr(err))
				if r.ip != "" {
					freedIP["session|"+r.ip] = r.id
				}
				sessions[i] = nil
				if r.inPlaceOlder && hasMAC(sessions, r.mac) {
					cl["statestore:in-place-updated-older-record-deleted-while-mac-still-live"] = true
				}
				check(rt, "DeleteSession")
			},
		}))
		cls := []string{"statestore"}
		if dupMAC {
			cls = append(cls, "statestore:two-records-one-mac")
		}
		if ipUpdated {
			cls = append(cls, "statestore:session-address-updated")
		}
		var extra []string
		for c := range cl {
			extra = append(extra, c)
		}
		sort.Strings(extra)
		cls = append(cls, extra...)
		nontrivial := nt || dupMAC
		if nontrivial {
			cls = append(cls, "nt:reacquired-or-contended", "nt:"+cls[0])
		}
		ops := h.ops
		vstat.Case(nontrivial, h.fp(), func() any { return map[string]any{"component": "statestore", "ops": ops} }, cls...)
	})
}

func leaseID(l *state.Lease) string {
	if l == nil {
		return "<nil lease>"
	}
	return fmt.Sprintf("lease %s (MAC %s, %s)", l.ID, l.MAC, l.IPv4)
}

func sessionID(s *state.Session) string {
	if s == nil {
		return "<nil session>"
	}
	return fmt.Sprintf("session %s (MAC %s, %v)", s.ID, s.MAC, s.IPv4)
}

func indexRec(l []*storeRec, r *storeRec) int {
	for i, x := range l {
		if x == r {
			return i
		}
	}
	return -1
}

// ---------------------------------------------------------------------------------------------------------
// allocator.MemoryAllocationStore

const sigAllocStoreStale = "C20/allocstore/byIP-stale/SaveAllocation"

// TestPropAllocationStore: SaveAllocation (new, idempotent, contended address, changed address for the same
// subscriber+pool) / RemoveAllocation histories over 4 subscribers, 2 pools of 4 addresses.
func TestPropAllocationStore(t *testing.T) {
	vstat.Checks(3000, 100000)
	ctx := context.Background()
	subs := []string{"s0", "s1", "s2", "s3"}
	pools := []string{"p1", "p2"}
	ipOf := func(pool string, i int) net.IP {
		if pool == "p1" {
			return net.IPv4(10, 40, 1, byte(i)).To4()
		}
		return net.IPv4(10, 40, 2, byte(i)).To4()
	}
	rapid.Check(t, func(rt *rapid.T) {
		h := &hist{comp: "allocstore"}
		st := allocator.NewMemoryAllocationStore()
		type key struct{ pool, sub string }
		has := map[key]string{}    // (pool, sub) -> ip
		holder := map[string]key{} // ip -> (pool, sub)
		freedBy := map[string]key{}
		nt, contended, changed := false, false, false
		modes := map[string]bool{}
		allowChange := !vstat.IsListed(sigAllocStoreStale) || rapid.IntRange(0, 2).Draw(rt, "allowAddressChange") == 0
		check := func(rt *rapid.T, op string) bool {
			n := 0
			for _, p := range pools {
				for _, s := range subs {
					ip, held := has[key{p, s}]
					recs, _ := st.GetBySubscriber(ctx, s)
					var found *allocator.AllocationRecord
					for i := range recs {
						if recs[i].PoolID == p {
							found = &recs[i]
						}
					}
					if held != (found != nil) || (held && found.Prefix.IP.String() != ip) {
						return !h.fail(rt, "forward-mismatch/"+op, "GetBySubscriber(%s) pool %s = %v, model holds %q (held=%v)", s, p, found, ip, held)
					}
					precs, _ := st.GetByPool(ctx, p)
					var pf *allocator.AllocationRecord
					for i := range precs {
						if precs[i].SubscriberID == s {
							pf = &precs[i]
						}
					}
					if held != (pf != nil) || (held && pf.Prefix.IP.String() != ip) {
						return !h.fail(rt, "pool-index-mismatch/"+op, "GetByPool(%s) subscriber %s = %v, model holds %q (held=%v)", p, s, pf, ip, held)
					}
					if held {
						n++
						r, err := st.GetByIP(ctx, net.ParseIP(ip))
						if err != nil || r.SubscriberID != s || r.PoolID != p {
							return !h.fail(rt, "byIP-lost/"+op, "%s holds %s in %s but GetByIP = %v, %v", s, ip, p, r, err)
						}
					}
				}
				for i := 1; i <= 4; i++ {
					ip := ipOf(p, i)
					r, err := st.GetByIP(ctx, ip)
					k, live := holder[ip.String()]
					if err == nil && (!live || r.SubscriberID != k.sub || r.PoolID != k.pool) {
						return !h.fail(rt, "byIP-stale/"+op, "GetByIP(%s) = {sub %s pool %s %s} but the model says holder %v (live=%v)", ip, r.SubscriberID, r.PoolID, r.Prefix, k, live)
					}
				}
			}
			if c := st.Count(); c != n {
				return !h.fail(rt, "count-mismatch/"+op, "Count()=%d, model has %d", c, n)
			}
			return true
		}
		rt.Repeat(guard(&h.dead, map[string]func(*rapid.T){
			"save": func(rt *rapid.T) {
				k := key{rapid.SampledFrom(pools).Draw(rt, "pool"), rapid.SampledFrom(subs).Draw(rt, "sub")}
				ip := ipOf(k.pool, rapid.IntRange(1, 4).Draw(rt, "host"))
				if cur, ok := has[k]; ok && cur != ip.String() {
					if !allowChange {
						ip = net.ParseIP(cur).To4() // idempotent re-save instead
					} else if _, taken := holder[ip.String()]; !taken {
						changed = true
					}
				}
				rec := allocator.AllocationRecord{SubscriberID: k.sub, PoolID: k.pool, PoolType: allocator.PoolTypeIPv4Address, Prefix: &net.IPNet{IP: ip, Mask: net.CIDRMask(32, 32)}, MAC: "02:00:00:00:02:0" + k.sub[1:]}
				// delivery mode of a re-save: a fresh record (above); a copy of the record GetByIP handed out, changed;
				// or that record changed IN PLACE through the returned pointer and then saved
				mode := "fresh"
				if cur, ok := has[k]; ok {
					if ptr, gerr := st.GetByIP(ctx, net.ParseIP(cur)); gerr == nil && ptr != nil && ptr.SubscriberID == k.sub && ptr.PoolID == k.pool {
						switch rapid.SampledFrom([]string{"fresh", "copy", "in-place"}).Draw(rt, "delivery") {
						case "copy":
							cp := *ptr
							cp.MAC = rec.MAC
							cp.Metadata = map[string]string{"note": "resaved"}
							cp.Prefix = rec.Prefix
							rec, mode = cp, "copy"
						case "in-place":
							ptr.MAC = rec.MAC
							ptr.Metadata = map[string]string{"note": "resaved"}
							want := rec.Prefix
							if o, taken := holder[ip.String()]; !taken || o == k {
								ptr.Prefix = want // a caller only moves its own record onto an address it believes free
							}
							rec, mode = *ptr, "in-place"
							rec.Prefix = want
						}
					}
				}
				modes[mode] = true
				err := st.SaveAllocation(ctx, rec)
				h.logf("save(%s,%s,%s,%s)=%s", k.pool, k.sub, ip, mode, okerr(err))
				o, taken := holder[ip.String()]
				if taken && o != k {
					contended = true
					if err == nil {
						h.fail(rt, "duplicate-address/SaveAllocation", "SaveAllocation(%s,%s,%s) succeeded while %v holds that address", k.pool, k.sub, ip, o)
						return
					}
				} else if err != nil {
					h.fail(rt, "free-address-rejected/SaveAllocation", "SaveAllocation(%s,%s,%s) failed (%v) although nobody else holds that address", k.pool, k.sub, ip, err)
					return
				}
				if err == nil {
					if cur, ok := has[k]; ok && cur != ip.String() {
						delete(holder, cur)
						freedBy[cur] = k
					}
					if f, ok := freedBy[ip.String()]; ok && f != k {
						nt = true
					}
					delete(freedBy, ip.String())
					has[k] = ip.String()
					holder[ip.String()] = k
				}
				check(rt, "SaveAllocation")
			},
			"remove": func(rt *rapid.T) {
				k := key{rapid.SampledFrom(pools).Draw(rt, "pool"), rapid.SampledFrom(subs).Draw(rt, "sub")}
				err := st.RemoveAllocation(ctx, k.pool, k.sub)
				h.logf("remove(%s,%s)=%s", k.pool, k.sub, okerr(err))
				if cur, ok := has[k]; ok {
					delete(has, k)
					delete(holder, cur)
					freedBy[cur] = k
				}
				check(rt, "RemoveAllocation")
			},
		}))
		cls := []string{"allocstore"}
		if changed {
			cls = append(cls, "allocstore:address-changed")
		}
		if contended {
			cls = append(cls, "allocstore:contended")
		}
		for _, md := range []string{"copy", "in-place"} {
			if modes[md] {
				cls = append(cls, "allocstore:resave:"+md)
			}
		}
		nontrivial := nt || contended
		if nontrivial {
			cls = append(cls, "nt:reacquired-or-contended", "nt:"+cls[0])
		}
		ops := h.ops
		vstat.Case(nontrivial, h.fp(), func() any { return map[string]any{"component": "allocstore", "ops": ops} }, cls...)
		_ = sort.Strings
	})
}
