package c20

// Minimal reproductions of every listed known finding, asserted through the same signatures as the generated
// tier: silent while the finding is listed, failing again if a fix is applied and later reverted
// (after a fix is applied the entry moves to "fixed" and these become plain regression tests).

import (
	"context"
	"hash/fnv"
	"net"
	"testing"
	"time"

	"github.com/codelaboratoryltd/bng/pkg/allocator"
	bngebpf "github.com/codelaboratoryltd/bng/pkg/ebpf"
	"github.com/codelaboratoryltd/bng/pkg/nexus"
	"github.com/codelaboratoryltd/bng/pkg/pppoe"
	"github.com/codelaboratoryltd/bng/pkg/state"
	"github.com/codelaboratoryltd/bng/pkg/subscriber"
	"go.uber.org/zap"

	"bngverif/internal/vstat"
)

func replayCase(name string) { vstat.Case(true, vstat.Hash("replay", name), nil, "replay") }

var cfg22 = nexus.VLANAllocatorConfig{STagRange: nexus.VLANRange{Start: 100, End: 101}, CTagRange: nexus.VLANRange{Start: 200, End: 201}}

// KF-C20-1: two stored NTEs with one pair.
func TestReplayVLANLoadDuplicatePair(t *testing.T) {
	v := newVlanSim(cfg22, []string{"a", "b", "c"})
	v.step(t, vlanOp{kind: "load", recs: []loadRec{{"a", 100, 200}, {"b", 100, 200}}})
	// a stored pair that a live allocation already holds
	v = newVlanSim(cfg22, []string{"a", "b", "c"})
	if v.step(t, vlanOp{kind: "alloc", nte: "a"}) {
		v.step(t, vlanOp{kind: "load", recs: []loadRec{{"b", 100, 200}}})
	}
	replayCase("vlan-load-duplicate")
}

// KF-C20-2: an NTE that holds (100,200) is loaded with (101,201); after Release the old pair stays blocked.
func TestReplayVLANLoadLeaksPreviousPair(t *testing.T) {
	v := newVlanSim(cfg22, []string{"a", "b", "c"})
	if v.step(t, vlanOp{kind: "alloc", nte: "a"}) &&
		v.step(t, vlanOp{kind: "load", recs: []loadRec{{"a", 101, 201}}}) &&
		v.step(t, vlanOp{kind: "release", nte: "a"}) {
		v.drain(t)
	}
	replayCase("vlan-load-leak")
}

// KF-C20-3/4: a client has two sessions (PADR retransmission); the older one goes away; the client is no
// longer found by MAC although its newer session is live.
func TestReplayPPPoEMACIndexLost(t *testing.T) {
	mac := net.HardwareAddr{2, 0, 0, 0, 0, 1}
	srv := net.HardwareAddr{2, 0, 0, 0, 0, 0xfe}
	for _, how := range []string{"RemoveSession", "CleanupExpired"} {
		p := &pppoeSim{h: &hist{comp: "pppoe"}, m: pppoe.NewSessionManager(), live: map[uint16]string{}, sess: map[uint16]*pppoe.Session{}, gone: map[uint16]bool{}, freedBy: map[uint16]string{}, macs: []net.HardwareAddr{mac}}
		s1, _ := p.m.CreateSession(mac, srv)
		s2, _ := p.m.CreateSession(mac, srv)
		p.live[s1.ID], p.sess[s1.ID] = mac.String(), s1
		p.live[s2.ID], p.sess[s2.ID] = mac.String(), s2
		p.h.logf("create=%d create=%d (same MAC)", s1.ID, s2.ID)
		if how == "RemoveSession" {
			p.m.RemoveSession(s1.ID)
		} else {
			s1.LastActivity = time.Now().Add(-2 * time.Hour)
			p.m.CleanupExpired(time.Hour)
		}
		p.h.logf("%s(older)", how)
		p.onRemoved(s1.ID)
		p.check(t, how)
		replayCase("pppoe-" + how)
	}
}

func fnv64(b []byte) uint64 {
	h := fnv.New64a()
	h.Write(b)
	return h.Sum64()
}

// TestReplayCircuitFixtures: the embedded collision pairs really collide (harness sanity).
func TestReplayCircuitFixtures(t *testing.T) {
	for _, p := range fnvCollisions {
		if p[0] == p[1] || fnv64([]byte(p[0])) != fnv64([]byte(p[1])) || bngebpf.HashCircuitID([]byte(p[0])) != fnv64([]byte(p[0])) {
			t.Fatalf("INCONCLUSIVE harness fixture broken: %q / %q", p[0], p[1])
		}
	}
}

// KF-C20-5/6/7: two subscribers, distinct circuit-ids, one key.
func TestReplayCircuitIDSharedKeys(t *testing.T) {
	long1 := append([]byte("olt-7/slot-3/port-12/onu-000000-"), []byte("vlan-100")...) // 40 bytes, first 32 common
	long2 := append([]byte("olt-7/slot-3/port-12/onu-000000-"), []byte("vlan-200")...)
	cases := []struct {
		name string
		a, b []byte
	}{
		{"truncated", long1, long2},
		{"prefix-of-long", []byte("olt-7/slot-3/port-12/onu-000000-"), long1},
		{"trailing-zero", []byte{0x00, 0x04, 0x00, 0x64, 0x01}, []byte{0x00, 0x04, 0x00, 0x64, 0x01, 0x00}},
		{"fnv", []byte(fnvCollisions[0][0]), []byte(fnvCollisions[0][1])},
	}
	for _, c := range cases {
		tb, err := newCircuitTables()
		if err != nil {
			t.Fatalf("INCONCLUSIVE cannot create kernel maps: %v", err)
		}
		h := &hist{comp: "circuitid"}
		subs := []circuitSub{
			{cid: c.a, mac: 0x020000000001, asg: bngebpf.PoolAssignment{PoolID: 1, AllocatedIP: 0x0a000001}},
			{cid: c.b, mac: 0x020000000002, asg: bngebpf.PoolAssignment{PoolID: 2, AllocatedIP: 0x0a000002}},
		}
		inUseFixed := [2]bool{}
		inUseHash := [2]bool{}
		for i := range subs {
			inUseHash[i] = tb.loader.AddCircuitIDMapping(subs[i].cid, subs[i].mac) == nil
			asg := subs[i].asg
			inUseFixed[i] = tb.loader.AddCircuitIDSubscriber(subs[i].cid, &asg) == nil
			h.logf("lease(%x)", subs[i].cid)
		}
		for i := range subs {
			if inUseFixed[i] {
				got, err := tb.loader.GetCircuitIDSubscriber(subs[i].cid)
				if err != nil || got.PoolID != subs[i].asg.PoolID {
					h.fail(t, "fixed-key-shared/"+sharedKind(c.a, c.b), "circuit-id %x (%d bytes) resolves to %+v (err %v), not to its own subscriber: shares key %x with %x", subs[i].cid, len(subs[i].cid), got, err, bngebpf.MakeCircuitIDKey(subs[i].cid), subs[1-i].cid)
					break
				}
			}
			if inUseHash[i] {
				got, err := tb.loader.GetCircuitIDMapping(subs[i].cid)
				if err != nil || got != subs[i].mac {
					h.fail(t, "hash-key-shared/"+hashShareKind(c.a, c.b), "circuit-id %q resolves to MAC %012x, not its own %012x: HashCircuitID %016x for both", subs[i].cid, got, subs[i].mac, bngebpf.HashCircuitID(subs[i].cid))
					break
				}
			}
		}
		tb.close()
		replayCase("circuitid-" + c.name)
	}
}

// KF-C20-8: cmd/bng/demo.go activateSubscriber: AssignAddress from the walled-garden pool, then from the ISP pool.
func TestReplaySubscriberManagerReassign(t *testing.T) {
	ctx := context.Background()
	fa := newFakeAddrAlloc()
	m := subscriber.NewManager(subscriber.ManagerConfig{MaxSessions: 8}, nil, fa, zap.NewNop())
	h := &hist{comp: "submgr"}
	s, err := m.CreateSession(ctx, &subscriber.SessionRequest{MAC: idxMACs[0], Type: subscriber.SessionTypeIPoE})
	if err != nil {
		t.Fatalf("INCONCLUSIVE %v", err)
	}
	_ = m.AssignAddress(ctx, s.ID, "p1", "")
	first := append(net.IP(nil), s.IPv4...)
	_ = m.AssignAddress(ctx, s.ID, "p2", "")
	h.logf("create; assign(p1)=%s; assign(p2)=%s", first, s.IPv4)
	if r, ok := m.GetSessionByIP(first); ok && (r == nil || !r.IPv4.Equal(first)) {
		h.fail(t, "byIP-stale/AssignAddress", "GetSessionByIP(%s) still reports session %s whose address is now %v", first, sessID(r), r.IPv4)
	}
	replayCase("submgr-reassign")
}

// KF-C20-9..12: state.Store secondary indexes.
func TestReplayStateStoreIndexes(t *testing.T) {
	mac := idxMACs[0]
	{ // two leases of one MAC, the older is deleted
		st := state.NewStore(state.DefaultConfig(), zap.NewNop())
		h := &hist{comp: "statestore"}
		l1 := &state.Lease{MAC: mac, IPv4: net.IPv4(10, 30, 1, 1).To4()}
		l2 := &state.Lease{MAC: mac, IPv4: net.IPv4(10, 30, 1, 2).To4()}
		_ = st.CreateLease(l1)
		_ = st.CreateLease(l2)
		_ = st.DeleteLease(l1.ID)
		h.logf("createLease(mac,.1); createLease(mac,.2); deleteLease(first)")
		if _, err := st.GetLeaseByMAC(mac); err != nil {
			h.fail(t, "lease-mac-index-lost/DeleteLease", "lease %s of MAC %s is live but GetLeaseByMAC fails: %v", l2.ID, mac, err)
		}
		replayCase("statestore-lease-mac")
	}
	{ // two sessions of one MAC (IPoE + PPPoE), the older is deleted
		st := state.NewStore(state.DefaultConfig(), zap.NewNop())
		h := &hist{comp: "statestore"}
		s1 := &state.Session{MAC: mac, Type: "ipoe"}
		s2 := &state.Session{MAC: mac, Type: "pppoe"}
		_ = st.CreateSession(s1)
		_ = st.CreateSession(s2)
		_ = st.DeleteSession(s1.ID)
		h.logf("createSession(mac); createSession(mac); deleteSession(first)")
		if _, err := st.GetSessionByMAC(mac); err != nil {
			h.fail(t, "session-mac-index-lost/DeleteSession", "session %s of MAC %s is live but GetSessionByMAC fails: %v", s2.ID, mac, err)
		}
		replayCase("statestore-session-mac")
	}
	{ // a session learns its address after creation
		st := state.NewStore(state.DefaultConfig(), zap.NewNop())
		h := &hist{comp: "statestore"}
		s := &state.Session{MAC: mac, Type: "ipoe"}
		_ = st.CreateSession(s)
		cur, _ := st.GetSession(s.ID)
		cp := *cur
		cp.IPv4 = net.IPv4(10, 30, 2, 1).To4()
		_ = st.UpdateSession(&cp)
		h.logf("createSession(mac, no address); updateSession(address .1)")
		if _, err := st.GetSessionByIP(cp.IPv4); err != nil {
			h.fail(t, "session-ip-index-lost/UpdateSession", "session %s carries %s but GetSessionByIP fails: %v", s.ID, cp.IPv4, err)
		}
		replayCase("statestore-session-ip-lost")
	}
	{ // a session changes its address; the old address still resolves to it
		st := state.NewStore(state.DefaultConfig(), zap.NewNop())
		h := &hist{comp: "statestore"}
		old := net.IPv4(10, 30, 2, 1).To4()
		s := &state.Session{MAC: mac, Type: "ipoe", IPv4: old}
		_ = st.CreateSession(s)
		cur, _ := st.GetSession(s.ID)
		cp := *cur
		cp.IPv4 = net.IPv4(10, 30, 2, 2).To4()
		_ = st.UpdateSession(&cp)
		h.logf("createSession(mac, .1); updateSession(address .2)")
		if r, err := st.GetSessionByIP(old); err == nil {
			h.fail(t, "session-ip-index-stale/UpdateSession", "GetSessionByIP(%s) still reports %s", old, sessionID(r))
		}
		replayCase("statestore-session-ip-stale")
	}
}

// KF-C20-13: the same subscriber+pool is saved with another address; the old address stays indexed (and blocked).
func TestReplayAllocationStoreAddressChange(t *testing.T) {
	ctx := context.Background()
	st := allocator.NewMemoryAllocationStore()
	h := &hist{comp: "allocstore"}
	mk := func(sub string, last byte) allocator.AllocationRecord {
		return allocator.AllocationRecord{SubscriberID: sub, PoolID: "p1", Prefix: &net.IPNet{IP: net.IPv4(10, 40, 1, last).To4(), Mask: net.CIDRMask(32, 32)}}
	}
	_ = st.SaveAllocation(ctx, mk("s0", 1))
	_ = st.SaveAllocation(ctx, mk("s0", 2))
	h.logf("save(p1,s0,.1); save(p1,s0,.2)")
	if r, err := st.GetByIP(ctx, net.IPv4(10, 40, 1, 1)); err == nil {
		h.fail(t, "byIP-stale/SaveAllocation", "GetByIP(10.40.1.1) still reports {sub %s %s} although s0 now holds 10.40.1.2; SaveAllocation(s1, 10.40.1.1) -> %v", r.SubscriberID, r.Prefix, st.SaveAllocation(ctx, mk("s1", 1)))
	}
	replayCase("allocstore-address-change")
}

// KF-C20-14/15: the record Get returned is modified in place (new MAC / new address) and handed back to Update:
// the keys it was indexed under are never removed.
func TestReplayStateStoreInPlaceKeyChange(t *testing.T) {
	macA, macB := idxMACs[0], idxMACs[1]
	{
		st := state.NewStore(state.DefaultConfig(), zap.NewNop())
		h := &hist{comp: "statestore"}
		l := &state.Lease{MAC: macA, IPv4: net.IPv4(10, 30, 1, 1).To4()}
		_ = st.CreateLease(l)
		cur, _ := st.GetLease(l.ID)
		cur.MAC = macB
		cur.IPv4 = net.IPv4(10, 30, 1, 2).To4()
		_ = st.UpdateLease(cur)
		h.logf("createLease(A,.1); l=GetLease; l.MAC=B; l.IPv4=.2; UpdateLease(l)")
		byMAC, e1 := st.GetLeaseByMAC(macA)
		byIP, e2 := st.GetLeaseByIP(net.IPv4(10, 30, 1, 1))
		if e1 == nil || e2 == nil {
			h.fail(t, "old-key-still-indexed-after-in-place-key-change/UpdateLease", "GetLeaseByMAC(A) = %v,%v; GetLeaseByIP(.1) = %v,%v although the only lease now has MAC B and address .2", leaseID(byMAC), e1, leaseID(byIP), e2)
		}
		replayCase("statestore-lease-in-place-key-change")
	}
	{
		st := state.NewStore(state.DefaultConfig(), zap.NewNop())
		h := &hist{comp: "statestore"}
		s := &state.Session{MAC: macA, Type: "ipoe", IPv4: net.IPv4(10, 30, 2, 1).To4()}
		_ = st.CreateSession(s)
		cur, _ := st.GetSession(s.ID)
		cur.MAC = macB
		cur.IPv4 = net.IPv4(10, 30, 2, 2).To4()
		_ = st.UpdateSession(cur)
		h.logf("createSession(A,.1); s=GetSession; s.MAC=B; s.IPv4=.2; UpdateSession(s)")
		byMAC, e1 := st.GetSessionByMAC(macA)
		byIP, e2 := st.GetSessionByIP(net.IPv4(10, 30, 2, 1))
		if e1 == nil || e2 == nil {
			h.fail(t, "old-key-still-indexed-after-in-place-key-change/UpdateSession", "GetSessionByMAC(A) = %v,%v; GetSessionByIP(.1) = %v,%v although the only session now has MAC B and address .2", sessionID(byMAC), e1, sessionID(byIP), e2)
		}
		replayCase("statestore-session-in-place-key-change")
	}
}

// TestReplayStateStoreInPlaceUpdateOfOlderRecord: one MAC, two sessions (IPoE + PPPoE) / two leases; the OLDER one is
// updated in place (no key changes) and then deleted: the MAC must still lead to the newer one, and to nothing once
// that is deleted too.
func TestReplayStateStoreInPlaceUpdateOfOlderRecord(t *testing.T) {
	mac := idxMACs[0]
	{
		st := state.NewStore(state.DefaultConfig(), zap.NewNop())
		h := &hist{comp: "statestore"}
		s1 := &state.Session{MAC: mac, Type: "ipoe"}
		s2 := &state.Session{MAC: mac, Type: "pppoe"}
		_ = st.CreateSession(s1)
		_ = st.CreateSession(s2)
		cur, _ := st.GetSession(s1.ID)
		cur.Username = "u"
		_ = st.UpdateSession(cur)
		_ = st.DeleteSession(s1.ID)
		h.logf("createSession(mac); createSession(mac); updateSession(first, in place); deleteSession(first)")
		if got, err := st.GetSessionByMAC(mac); err != nil || got == nil || got.ID != s2.ID {
			h.fail(t, "session-mac-index-lost/DeleteSession", "session %s of MAC %s is live but GetSessionByMAC = %v, %v", s2.ID, mac, sessionID(got), err)
		}
		_ = st.DeleteSession(s2.ID)
		if got, err := st.GetSessionByMAC(mac); err == nil {
			h.fail(t, "session-mac-index-stale/DeleteSession", "no session of MAC %s is left but GetSessionByMAC = %v, nil", mac, sessionID(got))
		}
		replayCase("statestore-session-in-place-older")
	}
	{
		st := state.NewStore(state.DefaultConfig(), zap.NewNop())
		h := &hist{comp: "statestore"}
		l1 := &state.Lease{MAC: mac, IPv4: net.IPv4(10, 30, 1, 1).To4()}
		l2 := &state.Lease{MAC: mac, IPv4: net.IPv4(10, 30, 1, 2).To4()}
		_ = st.CreateLease(l1)
		_ = st.CreateLease(l2)
		cur, _ := st.GetLease(l1.ID)
		cur.Hostname = "h"
		_ = st.UpdateLease(cur)
		_ = st.DeleteLease(l1.ID)
		h.logf("createLease(mac,.1); createLease(mac,.2); updateLease(first, in place); deleteLease(first)")
		if got, err := st.GetLeaseByMAC(mac); err != nil || got == nil || got.ID != l2.ID {
			h.fail(t, "lease-mac-index-lost/DeleteLease", "lease %s of MAC %s is live but GetLeaseByMAC = %v, %v", l2.ID, mac, leaseID(got), err)
		}
		_ = st.DeleteLease(l2.ID)
		if got, err := st.GetLeaseByMAC(mac); err == nil {
			h.fail(t, "lease-mac-index-stale/DeleteLease", "no lease of MAC %s is left but GetLeaseByMAC = %v, nil", mac, leaseID(got))
		}
		replayCase("statestore-lease-in-place-older")
	}
}

// TestReplayVLANOutOfRangeSTagReleased: an ISP-assigned outer tag below STagRange (AllocateWithSTag checks no range,
// LoadFromStore takes what the store recorded) is given up; plain Allocate must keep handing out pairs inside the ranges.
func TestReplayVLANOutOfRangeSTagReleased(t *testing.T) {
	for _, how := range []string{"allocS", "load", "move"} {
		v := newVlanSim(cfg22, []string{"a", "b", "c"})
		ok := true
		switch how {
		case "allocS":
			ok = v.step(t, vlanOp{kind: "allocS", nte: "a", stag: 99}) && v.step(t, vlanOp{kind: "release", nte: "a"})
		case "load":
			ok = v.step(t, vlanOp{kind: "load", recs: []loadRec{{"a", 50, 200}}}) && v.step(t, vlanOp{kind: "release", nte: "a"})
		case "move":
			ok = v.step(t, vlanOp{kind: "allocS", nte: "a", stag: 99}) && v.step(t, vlanOp{kind: "allocS", nte: "a", stag: 101})
		}
		if ok && v.step(t, vlanOp{kind: "alloc", nte: "b"}) && v.step(t, vlanOp{kind: "alloc", nte: "c"}) {
			v.drain(t)
		}
		replayCase("vlan-out-of-range-stag-" + how)
	}
}
