package c20

import (
	"fmt"
	"testing"

	"github.com/codelaboratoryltd/bng/pkg/qinq"
	"pgregory.net/rapid"

	"bngverif/internal/vstat"
)

// TestPropQinQMapper: Register / Unregister / UnregisterSubscriber histories over a small grid of tags
// (in range, just outside the ranges, single-tagged, untagged) and 5 subscribers.
func TestPropQinQMapper(t *testing.T) {
	vstat.Checks(3000, 100000)
	subs := []string{"s0", "s1", "s2", "s3", "s4"}
	rapid.Check(t, func(rt *rapid.T) {
		h := &hist{comp: "qinq"}
		// one or two outer ranges of 1-2 tags, inner range of 2-3 tags
		s0 := rapid.IntRange(2, 4000).Draw(rt, "s0")
		n0 := rapid.IntRange(1, 2).Draw(rt, "n0")
		ranges := []qinq.VLANRange{{Start: uint16(s0), End: uint16(s0 + n0 - 1)}}
		if rapid.Bool().Draw(rt, "twoRanges") {
			s1 := s0 + n0 + rapid.IntRange(1, 3).Draw(rt, "gap")
			ranges = append(ranges, qinq.VLANRange{Start: uint16(s1), End: uint16(s1)})
		}
		c0 := rapid.IntRange(2, 4000).Draw(rt, "c0")
		nc := rapid.IntRange(2, 3).Draw(rt, "nc")
		cfg := qinq.Config{Enabled: true, STagRanges: ranges, CTagRange: qinq.VLANRange{Start: uint16(c0), End: uint16(c0 + nc - 1)}, LookupPriority: "vlan_first"}
		m := qinq.NewMapper(cfg)
		h.logf("cfg S%v C[%d-%d]", ranges, cfg.CTagRange.Start, cfg.CTagRange.End)

		// tag alphabets: everything inside the ranges, the neighbours just outside, and 0 (= tag absent)
		var stags, ctags []uint16
		for _, r := range ranges {
			stags = append(stags, r.Start-1)
			for s := r.Start; s <= r.End; s++ {
				stags = append(stags, s)
			}
			stags = append(stags, r.End+1)
		}
		stags = append(stags, 0)
		for c := cfg.CTagRange.Start - 1; c <= cfg.CTagRange.End+1; c++ {
			ctags = append(ctags, c)
		}
		ctags = append(ctags, 0)
		sIn := func(s uint16) bool {
			if s == 0 {
				return true
			}
			for _, r := range ranges {
				if s >= r.Start && s <= r.End {
					return true
				}
			}
			return false
		}
		cIn := func(c uint16) bool { return c == 0 || (c >= cfg.CTagRange.Start && c <= cfg.CTagRange.End) }
		// weight the in-range tags: most registrations should be acceptable
		genPair := rapid.Custom(func(t *rapid.T) qinq.VLANPair {
			if rapid.IntRange(0, 4).Draw(t, "any") == 0 {
				return qinq.VLANPair{STag: rapid.SampledFrom(stags).Draw(t, "s"), CTag: rapid.SampledFrom(ctags).Draw(t, "c")}
			}
			r := rapid.SampledFrom(ranges).Draw(t, "r")
			return qinq.VLANPair{STag: uint16(rapid.IntRange(int(r.Start), int(r.End)).Draw(t, "s")), CTag: uint16(rapid.IntRange(int(cfg.CTagRange.Start), int(cfg.CTagRange.End)).Draw(t, "c"))}
		})

		p2s := map[qinq.VLANPair]string{}
		s2p := map[string]qinq.VLANPair{}
		freedBy := map[qinq.VLANPair]string{}
		everPairs := map[qinq.VLANPair]bool{}
		nt, rejectedRange, contended := false, false, false
		drop := func(s string) {
			if p, ok := s2p[s]; ok {
				delete(s2p, s)
				delete(p2s, p)
				freedBy[p] = s
			}
		}
		check := func(rt *rapid.T, op string) {
			for _, s := range subs {
				got, ok := m.GetVLAN(s)
				want, held := s2p[s]
				if ok != held || (ok && got != want) {
					if h.fail(rt, "forward-mismatch/"+op, "GetVLAN(%s)=%v,%v but the model says %v,%v", s, got, ok, want, held) {
						return
					}
				}
				if ok {
					if back, ok2 := m.GetSubscriber(got); !ok2 || back != s {
						if h.fail(rt, "reverse-disagrees/"+op, "GetVLAN(%s)=%v but GetSubscriber(%v)=%q,%v", s, got, got, back, ok2) {
							return
						}
					}
				}
			}
			for p := range everPairs {
				got, ok := m.GetSubscriber(p)
				want, held := p2s[p]
				if ok != held || (ok && got != want) {
					if h.fail(rt, "reverse-mismatch/"+op, "GetSubscriber(%v)=%q,%v but the model says %q,%v", p, got, ok, want, held) {
						return
					}
				}
			}
			if st := m.Stats(); st.TotalMappings != len(p2s) {
				h.fail(rt, "stats-mismatch/"+op, "Stats().TotalMappings=%d, model has %d", st.TotalMappings, len(p2s))
			}
		}
		sub := rapid.SampledFrom(subs)
		rt.Repeat(guard(&h.dead, map[string]func(*rapid.T){
			"register": func(rt *rapid.T) {
				p := genPair.Draw(rt, "pair")
				s := sub.Draw(rt, "sub")
				// bias towards contention and towards re-acquiring released pairs
				if len(freedBy) > 0 && rapid.IntRange(0, 2).Draw(rt, "reuse") == 0 {
					var ks []qinq.VLANPair
					for _, c := range ctags {
						for _, st := range stags {
							if _, ok := freedBy[qinq.VLANPair{STag: st, CTag: c}]; ok {
								ks = append(ks, qinq.VLANPair{STag: st, CTag: c})
							}
						}
					}
					p = rapid.SampledFrom(ks).Draw(rt, "freed")
				}
				everPairs[p] = true
				err := m.Register(p, s)
				h.logf("register(%v,%s)=%s", p, s, okerr(err))
				inRange := sIn(p.STag) && cIn(p.CTag)
				owner, taken := p2s[p]
				if taken && owner != s {
					contended = true
				}
				if err == nil {
					if !inRange {
						if h.fail(rt, "out-of-range-accepted/Register", "Register(%v,%s) succeeded although the pair is outside S%v C[%d-%d]", p, s, ranges, cfg.CTagRange.Start, cfg.CTagRange.End) {
							return
						}
					}
					if taken && owner != s {
						if h.fail(rt, "duplicate-pair/Register", "Register(%v,%s) succeeded while %s is registered on that pair", p, s, owner) {
							return
						}
					}
					if prev, ok := s2p[s]; ok && prev != p {
						drop(s)
					}
					if f, ok := freedBy[p]; ok && f != s {
						nt = true
					}
					delete(freedBy, p)
					s2p[s] = p
					p2s[p] = s
				} else {
					if !inRange {
						rejectedRange = true
					}
					if inRange && !taken {
						if h.fail(rt, "free-pair-rejected/Register", "Register(%v,%s) failed (%v) although the pair is in range and nobody holds it", p, s, err) {
							return
						}
					}
				}
				check(rt, "Register")
			},
			"unregister": func(rt *rapid.T) {
				p := genPair.Draw(rt, "pair")
				if len(p2s) > 0 && rapid.Bool().Draw(rt, "held") {
					var ks []qinq.VLANPair
					for _, s := range subs {
						if q, ok := s2p[s]; ok {
							ks = append(ks, q)
						}
					}
					p = rapid.SampledFrom(ks).Draw(rt, "heldPair")
				}
				everPairs[p] = true
				m.Unregister(p)
				h.logf("unregister(%v)", p)
				if s, ok := p2s[p]; ok {
					drop(s)
				}
				check(rt, "Unregister")
			},
			"unregisterSub": func(rt *rapid.T) {
				s := sub.Draw(rt, "sub")
				m.UnregisterSubscriber(s)
				h.logf("unregisterSub(%s)", s)
				drop(s)
				check(rt, "UnregisterSubscriber")
			},
		}))
		cls := []string{"qinq"}
		if rejectedRange {
			cls = append(cls, "qinq:out-of-range-rejected")
		}
		if contended {
			cls = append(cls, "qinq:contended")
		}
		if nt || contended {
			cls = append(cls, "nt:reacquired-or-contended", "nt:"+cls[0])
		}
		ops := h.ops
		vstat.Case(nt || contended, h.fp(), func() any { return map[string]any{"component": "qinq", "ops": ops} }, cls...)
		_ = fmt.Sprint
	})
}
