/* CALL thunks for bpf/antispoof.c */
SHIM_CALL_NAMED(SHIM_SRC, mac_to_u64, antispoof_mac_to_u64)
{
	return mac_to_u64(c->in);
}
SHIM_CALL_NAMED(SHIM_SRC, ip_in_allowed_range, antispoof_ip_in_allowed_range)
{
	return (__u64)ip_in_allowed_range((__u32)c->a[0]);
}
