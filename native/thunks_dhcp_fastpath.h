/* CALL thunks for static inline helpers of bpf/dhcp_fastpath.c (included at the end of the wrapper TU).
 * c->in is a guarded buffer [in, in_end); c->a[] scalars; c->aux a plain blob; c->out/out_len output. */
SHIM_CALL_NAMED(SHIM_SRC, mac_to_u64, dhcp_mac_to_u64)
{
	return mac_to_u64(c->in);
}
SHIM_CALL_NAMED(SHIM_SRC, get_dhcp_msg_type, dhcp_get_dhcp_msg_type)
{
	/* in = BOOTP message starting at `op`; data_end = end of buffer */
	return get_dhcp_msg_type(c->in, c->in_end);
}
SHIM_CALL_NAMED(SHIM_SRC, extract_circuit_id_fixed, dhcp_extract_circuit_id_fixed)
{
	struct circuit_id_key key;
	int found = extract_circuit_id_fixed(c->in, c->in_end, &key);
	__builtin_memcpy(c->out, &key, sizeof(key));
	c->out_len = sizeof(key);
	return (__u64)found;
}
SHIM_CALL_NAMED(SHIM_SRC, ip_checksum, dhcp_ip_checksum)
{
	return ip_checksum((struct iphdr *)c->in);
}
SHIM_CALL_NAMED(SHIM_SRC, prefix_to_mask, dhcp_prefix_to_mask)
{
	return prefix_to_mask((__u8)c->a[0]);
}
SHIM_CALL_NAMED(SHIM_SRC, build_dhcp_options, dhcp_build_dhcp_options)
{
	/* in = options area to write into; aux = struct ip_pool || struct pool_assignment; a0 msg type, a1 server ip */
	struct ip_pool pool;
	struct pool_assignment asg;
	if (c->aux_len < sizeof(pool) + sizeof(asg))
		return (__u64)-22;
	__builtin_memcpy(&pool, c->aux, sizeof(pool));
	__builtin_memcpy(&asg, c->aux + sizeof(pool), sizeof(asg));
	return (__u64)(__s64)build_dhcp_options(c->in, c->in_end, (__u8)c->a[0], &pool, &asg, (__u32)c->a[1]);
}
