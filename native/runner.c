/* bpfrunner core: executes the natively compiled XDP/TC programs of the bpf C sources on frames placed flush
 * against PROT_NONE guard pages, with shimmed maps and helpers.  Protocol and semantics: README.md.
 *
 * One process, single threaded, speaks a length-prefixed binary protocol on stdin/stdout.
 */
#define _GNU_SOURCE
#include <errno.h>
#include <fcntl.h>
#include <setjmp.h>
#include <signal.h>
#include <stdarg.h>
#include <stddef.h>
#include <stdint.h>
#include <stdio.h>
#include <stdlib.h>
#include <string.h>
#include <sys/mman.h>
#include <sys/time.h>
#include <unistd.h>
#include <linux/if_ether.h>
#include <linux/pkt_cls.h>
#include "shim.h"

#define PROTO_VERSION 1
#define PAGE 4096UL
#define SLOT_DATA (40 * PAGE)
#define MAX_FRAME (SLOT_DATA - 256)
#define MAX_SLOTS 32
#define CANARY 64

enum { OP_HELLO = 1, OP_MAPINFO, OP_PROGS, OP_SITES, OP_CALLS, OP_LOAD, OP_DELETE, OP_CLEAR, OP_DUMP,
       OP_CLOCK, OP_RUN, OP_CALL, OP_QUIT };
enum { F_NONE = 0, F_SEGV = 1, F_BUS = 2, F_TIMEOUT = 3, F_CANARY = 4, F_FPE = 5, F_ILL = 6, F_UBSAN = 7 };
enum { W_NONE = 0, W_BEFORE = 1, W_AFTER = 2, W_STALE = 3, W_NULL = 4, W_WILD = 5 };
enum { K_HASH = 1, K_ARRAY, K_LPM, K_SINK, K_OTHER };

extern struct shim_site __start_shim_sites[] __attribute__((weak)), __stop_shim_sites[] __attribute__((weak));
extern struct shim_mapreg __start_shim_mapregs[] __attribute__((weak)), __stop_shim_mapregs[] __attribute__((weak));
extern struct shim_progreg __start_shim_progregs[] __attribute__((weak)), __stop_shim_progregs[] __attribute__((weak));
extern struct shim_callreg __start_shim_callregs[] __attribute__((weak)), __stop_shim_callregs[] __attribute__((weak));

static void die(const char *fmt, ...);

/* ------------------------------------------------------------------------------------------------
 * maps
 * ------------------------------------------------------------------------------------------------ */
struct helem {
	struct helem *next;
	unsigned hash;
	unsigned pad;
	unsigned char data[]; /* key (padded to 8) then value */
};
struct ev {
	struct ev *next;
	unsigned len;
	unsigned char data[];
};
struct rbrec { /* ring buffer reservation; data[] is what the program sees */
	struct rmap *m;
	struct rbrec *next, *prev;
	unsigned size;
	unsigned pad;
	unsigned char data[];
};
struct rmap {
	const char *name, *src;
	void *var;
	unsigned type, ksz, vsz, maxent, flags;
	int kind;
	unsigned kpad;           /* round_up(ksz, 8) */
	struct helem **buckets;  /* K_HASH */
	unsigned nbuckets, count;
	struct helem *list;      /* K_LPM (insertion order) */
	unsigned char *arr;      /* K_ARRAY */
	unsigned vstride;
	struct ev *ev_head, *ev_tail; /* K_SINK */
	size_t ev_bytes;
	unsigned long dropped;
	struct rmap *next;
};
static struct rmap *g_maps, *g_maps_tail;
static unsigned g_nmaps;
static struct helem *g_deferred; /* elements deleted while a program may still hold a pointer */
static struct rbrec *g_pending;  /* reserved, not yet committed ring buffer records */
static volatile int g_inrun;

static unsigned fnv(const unsigned char *p, unsigned n)
{
	unsigned h = 2166136261u;
	for (unsigned i = 0; i < n; i++) {
		h ^= p[i];
		h *= 16777619u;
	}
	return h;
}

static struct rmap *map_by_name(const char *name)
{
	for (struct rmap *m = g_maps; m; m = m->next)
		if (!strcmp(m->name, name))
			return m;
	return NULL;
}

static struct rmap *map_create(const char *name, const char *src, void *var, unsigned type, unsigned ksz,
                               unsigned vsz, unsigned maxent, unsigned flags)
{
	struct rmap *m = calloc(1, sizeof(*m));
	if (!m)
		die("oom");
	m->name = name;
	m->src = src;
	m->var = var;
	m->type = type;
	m->ksz = ksz;
	m->vsz = vsz;
	m->maxent = maxent;
	m->flags = flags;
	m->kpad = (ksz + 7) & ~7u;
	switch (type) {
	case BPF_MAP_TYPE_HASH:
	case BPF_MAP_TYPE_LRU_HASH:
	case BPF_MAP_TYPE_PERCPU_HASH:
	case BPF_MAP_TYPE_LRU_PERCPU_HASH:
		m->kind = K_HASH;
		m->nbuckets = 64;
		m->buckets = calloc(m->nbuckets, sizeof(*m->buckets));
		break;
	case BPF_MAP_TYPE_ARRAY:
	case BPF_MAP_TYPE_PERCPU_ARRAY:
		m->kind = K_ARRAY;
		m->vstride = (vsz + 7) & ~7u;
		m->arr = calloc(maxent ? maxent : 1, m->vstride ? m->vstride : 8);
		if (!m->arr)
			die("oom array %s", name);
		break;
	case BPF_MAP_TYPE_LPM_TRIE:
		m->kind = K_LPM;
		break;
	case BPF_MAP_TYPE_PERF_EVENT_ARRAY:
	case BPF_MAP_TYPE_RINGBUF:
		m->kind = K_SINK;
		break;
	default:
		m->kind = K_OTHER;
	}
	if (g_maps_tail)
		g_maps_tail->next = m;
	else
		g_maps = m;
	g_maps_tail = m;
	g_nmaps++;
	return m;
}

static struct rmap *resolve(void *var, const char *name, unsigned type, unsigned ksz, unsigned vsz, unsigned maxent)
{
	struct rmap *m = *(struct rmap **)var;
	if (m)
		return m;
	/* declaration the generator did not see: register from the call site's geometry */
	m = map_by_name(name[0] == '&' ? name + 1 : name);
	if (!m)
		m = map_create(name[0] == '&' ? name + 1 : name, "?", var, type, ksz, vsz, maxent, 0);
	*(struct rmap **)var = m;
	return m;
}

static void helem_free(struct helem *e)
{
	if (g_inrun) {
		e->next = g_deferred;
		g_deferred = e;
	} else {
		free(e);
	}
}

static void hash_grow(struct rmap *m)
{
	unsigned nb = m->nbuckets * 4;
	struct helem **b = calloc(nb, sizeof(*b));
	if (!b)
		return;
	for (unsigned i = 0; i < m->nbuckets; i++) {
		struct helem *e = m->buckets[i], *n;
		/* keep relative order inside a chain */
		struct helem *rev = NULL;
		for (; e; e = n) {
			n = e->next;
			e->next = rev;
			rev = e;
		}
		for (e = rev; e; e = n) {
			n = e->next;
			unsigned j = e->hash & (nb - 1);
			e->next = b[j];
			b[j] = e;
		}
	}
	free(m->buckets);
	m->buckets = b;
	m->nbuckets = nb;
}

static int lpm_match(const struct rmap *m, const unsigned char *ekey, const unsigned char *key, unsigned bits)
{
	unsigned full = bits / 8, rem = bits % 8;
	if (memcmp(ekey + 4, key + 4, full))
		return 0;
	if (rem) {
		unsigned char mask = (unsigned char)(0xff << (8 - rem));
		if ((ekey[4 + full] ^ key[4 + full]) & mask)
			return 0;
	}
	(void)m;
	return 1;
}

static void *map_lookup(struct rmap *m, const void *key)
{
	switch (m->kind) {
	case K_HASH: {
		unsigned h = fnv(key, m->ksz);
		for (struct helem *e = m->buckets[h & (m->nbuckets - 1)]; e; e = e->next)
			if (e->hash == h && !memcmp(e->data, key, m->ksz))
				return e->data + m->kpad;
		return NULL;
	}
	case K_ARRAY: {
		__u32 idx;
		memcpy(&idx, key, 4);
		if (idx >= m->maxent)
			return NULL;
		return m->arr + (size_t)idx * m->vstride;
	}
	case K_LPM: {
		__u32 plen;
		memcpy(&plen, key, 4);
		unsigned maxbits = (m->ksz - 4) * 8;
		if (plen > maxbits)
			plen = maxbits;
		struct helem *best = NULL;
		__u32 bestlen = 0;
		for (struct helem *e = m->list; e; e = e->next) {
			__u32 el;
			memcpy(&el, e->data, 4);
			if (el > plen)
				continue;
			if (best && el <= bestlen)
				continue;
			if (lpm_match(m, e->data, key, el)) {
				best = e;
				bestlen = el;
			}
		}
		return best ? best->data + m->kpad : NULL;
	}
	default:
		return NULL;
	}
}

static long map_update(struct rmap *m, const void *key, const void *value, __u64 flags)
{
	if (flags & ~(__u64)(BPF_NOEXIST | BPF_EXIST | BPF_F_LOCK))
		return -EINVAL;
	if ((flags & BPF_NOEXIST) && (flags & BPF_EXIST))
		return -EINVAL;
	switch (m->kind) {
	case K_HASH: {
		unsigned char *v = map_lookup(m, key);
		if (v) {
			if (flags & BPF_NOEXIST)
				return -EEXIST;
			memcpy(v, value, m->vsz);
			return 0;
		}
		if (flags & BPF_EXIST)
			return -ENOENT;
		if (m->count >= m->maxent) {
			if (m->type != BPF_MAP_TYPE_LRU_HASH && m->type != BPF_MAP_TYPE_LRU_PERCPU_HASH)
				return -E2BIG;
			/* LRU: evict some element (approximation: first in bucket order) */
			for (unsigned i = 0; i < m->nbuckets; i++)
				if (m->buckets[i]) {
					struct helem *e = m->buckets[i];
					m->buckets[i] = e->next;
					m->count--;
					helem_free(e);
					break;
				}
		}
		if (m->count > m->nbuckets * 2)
			hash_grow(m);
		struct helem *e = calloc(1, sizeof(*e) + m->kpad + ((m->vsz + 7) & ~7u));
		if (!e)
			return -ENOMEM;
		e->hash = fnv(key, m->ksz);
		memcpy(e->data, key, m->ksz);
		memcpy(e->data + m->kpad, value, m->vsz);
		/* append at chain tail so that DUMP order is insertion order within a bucket */
		struct helem **pp = &m->buckets[e->hash & (m->nbuckets - 1)];
		while (*pp)
			pp = &(*pp)->next;
		*pp = e;
		m->count++;
		return 0;
	}
	case K_ARRAY: {
		if (flags & BPF_NOEXIST)
			return -EEXIST;
		__u32 idx;
		memcpy(&idx, key, 4);
		if (idx >= m->maxent)
			return -E2BIG;
		memcpy(m->arr + (size_t)idx * m->vstride, value, m->vsz);
		return 0;
	}
	case K_LPM: {
		__u32 plen;
		memcpy(&plen, key, 4);
		if (plen > (m->ksz - 4) * 8)
			return -EINVAL;
		struct helem **pp = &m->list;
		for (; *pp; pp = &(*pp)->next) {
			__u32 el;
			memcpy(&el, (*pp)->data, 4);
			if (el == plen && lpm_match(m, (*pp)->data, key, el)) {
				if (flags & BPF_NOEXIST)
					return -EEXIST;
				memcpy((*pp)->data + m->kpad, value, m->vsz);
				return 0;
			}
		}
		if (flags & BPF_EXIST)
			return -ENOENT;
		if (m->count >= m->maxent)
			return -ENOSPC;
		struct helem *e = calloc(1, sizeof(*e) + m->kpad + ((m->vsz + 7) & ~7u));
		if (!e)
			return -ENOMEM;
		memcpy(e->data, key, m->ksz);
		memcpy(e->data + m->kpad, value, m->vsz);
		*pp = e;
		m->count++;
		return 0;
	}
	default:
		return -EINVAL;
	}
}

static long map_delete(struct rmap *m, const void *key)
{
	switch (m->kind) {
	case K_HASH: {
		unsigned h = fnv(key, m->ksz);
		for (struct helem **pp = &m->buckets[h & (m->nbuckets - 1)]; *pp; pp = &(*pp)->next)
			if ((*pp)->hash == h && !memcmp((*pp)->data, key, m->ksz)) {
				struct helem *e = *pp;
				*pp = e->next;
				m->count--;
				helem_free(e);
				return 0;
			}
		return -ENOENT;
	}
	case K_ARRAY:
		return -EINVAL;
	case K_LPM: {
		__u32 plen;
		memcpy(&plen, key, 4);
		if (plen > (m->ksz - 4) * 8)
			return -EINVAL;
		for (struct helem **pp = &m->list; *pp; pp = &(*pp)->next) {
			__u32 el;
			memcpy(&el, (*pp)->data, 4);
			if (el == plen && lpm_match(m, (*pp)->data, key, el)) {
				struct helem *e = *pp;
				*pp = e->next;
				m->count--;
				helem_free(e);
				return 0;
			}
		}
		return -ENOENT;
	}
	default:
		return -EINVAL;
	}
}

static void map_clear(struct rmap *m)
{
	switch (m->kind) {
	case K_HASH:
		for (unsigned i = 0; i < m->nbuckets; i++) {
			struct helem *e = m->buckets[i], *n;
			for (; e; e = n) {
				n = e->next;
				free(e);
			}
			m->buckets[i] = NULL;
		}
		m->count = 0;
		break;
	case K_ARRAY:
		memset(m->arr, 0, (size_t)(m->maxent ? m->maxent : 1) * (m->vstride ? m->vstride : 8));
		break;
	case K_LPM: {
		struct helem *e = m->list, *n;
		for (; e; e = n) {
			n = e->next;
			free(e);
		}
		m->list = NULL;
		m->count = 0;
		break;
	}
	case K_SINK: {
		struct ev *e = m->ev_head, *n;
		for (; e; e = n) {
			n = e->next;
			free(e);
		}
		m->ev_head = m->ev_tail = NULL;
		m->ev_bytes = 0;
		m->count = 0;
		m->dropped = 0;
		break;
	}
	}
}

static void sink_add(struct rmap *m, const void *a, unsigned alen, const void *b, unsigned blen)
{
	struct ev *e = malloc(sizeof(*e) + alen + blen + 1);
	if (!e)
		return;
	e->next = NULL;
	e->len = alen + blen;
	memcpy(e->data, a, alen);
	if (blen)
		memcpy(e->data + alen, b, blen);
	if (m->ev_tail)
		m->ev_tail->next = e;
	else
		m->ev_head = e;
	m->ev_tail = e;
	m->count++;
}

/* ------------------------------------------------------------------------------------------------
 * run state: guarded packet slots, fault handling, coverage
 * ------------------------------------------------------------------------------------------------ */
struct slot {
	unsigned char *base; /* PROT_NONE page | SLOT_DATA rw | PROT_NONE page */
	unsigned char *data;
	unsigned char *hi;
	int retired;
};
static struct slot g_slots[MAX_SLOTS];
static int g_nslots;

static struct {
	int kind;                /* SHIM_PROG_XDP / SHIM_PROG_TC / 0 for CALL */
	int placement;           /* 0 end-flush, 1 start-flush */
	struct slot *cur;
	unsigned char *data;
	unsigned len;
	long headroom, tailroom; /* logical room the kernel would have (bytes) */
	union {
		struct xdp_md xdp;
		struct __sk_buff skb;
	} ctx;
	int redirected;
	__u32 redirect_ifindex;
	__u64 redirect_flags;
	int canary_bad;
	long canary_off;
	unsigned nlookups, nhelpers, nreloc;
} P;

static struct {
	volatile int kind;
	volatile unsigned long addr;
} g_fault;
static sigjmp_buf g_env;
static volatile unsigned long g_run_seq, g_seen_seq;
static unsigned char *g_bitmap;
static unsigned g_nsites;
static __u64 g_clock, g_clock_step;
static __u64 g_rng;
static int g_errfd = -1, g_realerr = 2;
static int g_exit_after_reply;

static struct slot *slot_new(void)
{
	if (g_nslots >= MAX_SLOTS)
		return NULL;
	unsigned char *p = mmap(NULL, PAGE + SLOT_DATA + PAGE, PROT_NONE, MAP_PRIVATE | MAP_ANONYMOUS | MAP_32BIT, -1, 0);
	if (p == MAP_FAILED)
		return NULL;
	if ((unsigned long)p + PAGE + SLOT_DATA + PAGE > 0xffffffffUL) { /* data/data_end are __u32 */
		munmap(p, PAGE + SLOT_DATA + PAGE);
		return NULL;
	}
	if (mprotect(p + PAGE, SLOT_DATA, PROT_READ | PROT_WRITE))
		return NULL;
	struct slot *s = &g_slots[g_nslots++];
	s->base = p;
	s->data = p + PAGE;
	s->hi = p + PAGE + SLOT_DATA;
	s->retired = 0;
	return s;
}

static unsigned char canary_byte(unsigned i) { return (unsigned char)(0xC5 ^ (i * 7)); }

/* returns the packet start for a packet of len bytes in slot s and paints the canary on the open side */
static unsigned char *slot_place(struct slot *s, int placement, unsigned len)
{
	unsigned char *p, *c;
	if (placement == 0) {
		p = s->hi - len;
		c = p - CANARY;
	} else {
		p = s->data;
		c = p + len;
	}
	for (unsigned i = 0; i < CANARY; i++)
		c[i] = canary_byte(i);
	return p;
}

static void canary_check(void)
{
	if (!P.cur || P.canary_bad)
		return;
	unsigned char *c = P.placement == 0 ? P.data - CANARY : P.data + P.len;
	for (unsigned i = 0; i < CANARY; i++)
		if (c[i] != canary_byte(i)) {
			P.canary_bad = 1;
			P.canary_off = P.placement == 0 ? (long)i - CANARY : (long)(P.len + i);
			return;
		}
}

static void ctx_sync(void)
{
	if (P.kind == SHIM_PROG_XDP) {
		P.ctx.xdp.data = (__u32)(unsigned long)P.data;
		P.ctx.xdp.data_end = (__u32)(unsigned long)(P.data + P.len);
		P.ctx.xdp.data_meta = P.ctx.xdp.data;
	} else if (P.kind == SHIM_PROG_TC) {
		P.ctx.skb.data = (__u32)(unsigned long)P.data;
		P.ctx.skb.data_end = (__u32)(unsigned long)(P.data + P.len);
		P.ctx.skb.data_meta = P.ctx.skb.data;
	}
}

/* Move the packet to a fresh guarded slot (new packet = old[head_delta, len + tail_delta)) and retire
 * the old slot (PROT_NONE), so that packet pointers obtained before the call fault when used. */
static long pkt_relocate(long head_delta, long tail_delta, int front_fill)
{
	long newlen = (long)P.len - head_delta + tail_delta;
	if (newlen < 0 || (unsigned long)newlen > MAX_FRAME)
		return -EINVAL;
	canary_check();
	struct slot *ns = NULL;
	for (int i = 0; i < g_nslots; i++)
		if (!g_slots[i].retired && &g_slots[i] != P.cur) {
			ns = &g_slots[i];
			break;
		}
	if (!ns)
		ns = slot_new();
	if (!ns)
		return -ENOMEM;
	unsigned char *p = slot_place(ns, P.placement, (unsigned)newlen);
	long from = head_delta > 0 ? head_delta : 0;
	long to = tail_delta < 0 ? (long)P.len + tail_delta : (long)P.len;
	long dst = from - head_delta;
	if (head_delta < 0)
		memset(p, front_fill, (size_t)(-head_delta));
	if (to > from)
		memcpy(p + dst, P.data + from, (size_t)(to - from));
	if (tail_delta > 0)
		memset(p + newlen - tail_delta, 0, (size_t)tail_delta);
	mprotect(P.cur->data, SLOT_DATA, PROT_NONE);
	P.cur->retired = 1;
	P.cur = ns;
	P.data = p;
	P.len = (unsigned)newlen;
	P.nreloc++;
	ctx_sync();
	return 0;
}

static void slots_reset(void)
{
	for (int i = 0; i < g_nslots; i++)
		if (g_slots[i].retired) {
			mprotect(g_slots[i].data, SLOT_DATA, PROT_READ | PROT_WRITE);
			g_slots[i].retired = 0;
		}
}

static int classify(unsigned long a, long *rel)
{
	*rel = (long)a - (long)(unsigned long)P.data;
	if (a < 65536)
		return W_NULL;
	for (int i = 0; i < g_nslots; i++) {
		struct slot *s = &g_slots[i];
		if (a >= (unsigned long)s->base && a < (unsigned long)s->hi + PAGE) {
			if (s == P.cur)
				return a < (unsigned long)P.data ? W_BEFORE : W_AFTER;
			return W_STALE;
		}
	}
	return W_WILD;
}

static void dump_captured_stderr(void)
{
	if (g_errfd < 0)
		return;
	char buf[4096];
	ssize_t n = pread(g_errfd, buf, sizeof(buf), 0);
	if (n > 0) {
		ssize_t w = write(g_realerr, buf, (size_t)n);
		(void)w;
	}
}

static void on_fault(int sig, siginfo_t *si, void *uc)
{
	(void)uc;
	if (!g_inrun) {
		dump_captured_stderr();
		signal(sig, SIG_DFL);
		raise(sig);
		return;
	}
	g_fault.kind = sig == SIGSEGV ? F_SEGV : sig == SIGBUS ? F_BUS : sig == SIGFPE ? F_FPE : F_ILL;
	g_fault.addr = (unsigned long)si->si_addr;
	siglongjmp(g_env, 1);
}

static void on_alarm(int sig)
{
	(void)sig;
	if (!g_inrun)
		return;
	if (g_seen_seq == g_run_seq) { /* second tick inside the same run */
		g_fault.kind = F_TIMEOUT;
		g_fault.addr = 0;
		siglongjmp(g_env, 1);
	}
	g_seen_seq = g_run_seq;
}

/* UBSan runtime hooks: report is printed to fd 2 (captured), then the death callback unwinds the run */
void __sanitizer_set_death_callback(void (*cb)(void));
const char *__ubsan_default_options(void) { return "print_stacktrace=0:halt_on_error=0:report_error_type=1"; }
static void on_sanitizer_death(void)
{
	if (g_inrun) {
		g_fault.kind = F_UBSAN;
		g_fault.addr = 0;
		siglongjmp(g_env, 1);
	}
	dump_captured_stderr();
}

static unsigned take_captured_stderr(char *buf, unsigned cap)
{
	if (g_errfd < 0)
		return 0;
	ssize_t n = pread(g_errfd, buf, cap, 0);
	if (n < 0)
		n = 0;
	if (ftruncate(g_errfd, 0) == 0)
		lseek(g_errfd, 0, SEEK_SET);
	return (unsigned)n;
}

/* ------------------------------------------------------------------------------------------------
 * helper implementations called from the BPF sources
 * ------------------------------------------------------------------------------------------------ */
void *shim_map_lookup(void *var, const void *key, struct shim_site *site, const char *name, unsigned type,
                      unsigned ksz, unsigned vsz, unsigned maxent)
{
	struct rmap *m = resolve(var, name, type, ksz, vsz, maxent);
	if (site && g_bitmap) {
		unsigned long i = (unsigned long)(site - __start_shim_sites);
		if (i < g_nsites)
			g_bitmap[i >> 3] |= (unsigned char)(1u << (i & 7));
	}
	P.nlookups++;
	P.nhelpers++;
	return map_lookup(m, key);
}

long shim_map_update(void *var, const void *key, const void *value, __u64 flags, const char *name, unsigned type,
                     unsigned ksz, unsigned vsz, unsigned maxent)
{
	P.nhelpers++;
	return map_update(resolve(var, name, type, ksz, vsz, maxent), key, value, flags);
}

long shim_map_delete(void *var, const void *key, const char *name, unsigned type, unsigned ksz, unsigned vsz,
                     unsigned maxent)
{
	P.nhelpers++;
	return map_delete(resolve(var, name, type, ksz, vsz, maxent), key);
}

#define SINK_CAP (1u << 20)

long shim_perf_event_output(void *ctx, void *var, const char *name, unsigned type, __u64 flags, void *data, __u64 size)
{
	(void)ctx;
	P.nhelpers++;
	struct rmap *m = resolve(var, name, type, 4, 4, 0);
	__u64 idx = flags & BPF_F_INDEX_MASK;
	__u64 ctxlen = (flags & BPF_F_CTXLEN_MASK) >> 32;
	if (flags & ~(BPF_F_CTXLEN_MASK | BPF_F_INDEX_MASK))
		return -EINVAL;
	if (idx != BPF_F_CURRENT_CPU && idx != 0)
		return -ENOENT; /* one CPU */
	if (ctxlen > P.len)
		return -EFAULT;
	if (size > 0xffff)
		return -E2BIG;
	if (m->ev_bytes + size + ctxlen > SINK_CAP) {
		m->dropped++;
		return -ENOSPC;
	}
	sink_add(m, data, (unsigned)size, P.data, (unsigned)ctxlen);
	m->ev_bytes += size + ctxlen;
	return 0;
}

void *shim_ringbuf_reserve(void *var, const char *name, unsigned type, unsigned maxent, __u64 size, __u64 flags)
{
	P.nhelpers++;
	struct rmap *m = resolve(var, name, type, 0, 0, maxent);
	if (flags || size > (1u << 30))
		return NULL;
	size_t need = 8 + ((size + 7) & ~7ULL);
	size_t cap = m->maxent ? m->maxent : SINK_CAP;
	if (m->ev_bytes + need > cap) {
		m->dropped++;
		return NULL;
	}
	struct rbrec *r = calloc(1, sizeof(*r) + size + 8);
	if (!r)
		return NULL;
	r->m = m;
	r->size = (unsigned)size;
	r->next = g_pending;
	if (g_pending)
		g_pending->prev = r;
	g_pending = r;
	m->ev_bytes += need;
	return r->data;
}

void shim_ringbuf_commit(void *rec, __u64 flags, int discard)
{
	(void)flags;
	P.nhelpers++;
	struct rbrec *r = (struct rbrec *)((unsigned char *)rec - offsetof(struct rbrec, data));
	struct rbrec *q;
	for (q = g_pending; q && q != r; q = q->next)
		;
	if (!q)
		return; /* not a live reservation (the verifier would reject this program) */
	if (r->prev)
		r->prev->next = r->next;
	else
		g_pending = r->next;
	if (r->next)
		r->next->prev = r->prev;
	if (!discard)
		sink_add(r->m, r->data, r->size, NULL, 0);
	/* a discarded record still occupies ring space until the consumer passes it: keep ev_bytes */
	free(r);
}

long shim_ringbuf_output(void *var, const char *name, unsigned type, unsigned maxent, void *data, __u64 size, __u64 flags)
{
	void *p = shim_ringbuf_reserve(var, name, type, maxent, size, 0);
	(void)flags;
	if (!p)
		return -EAGAIN;
	memcpy(p, data, size);
	shim_ringbuf_commit(p, 0, 0);
	return 0;
}

__u64 shim_ktime_get_ns(void)
{
	__u64 v = g_clock;
	g_clock += g_clock_step;
	P.nhelpers++;
	return v;
}

__u32 shim_prandom_u32(void)
{
	g_rng ^= g_rng << 13;
	g_rng ^= g_rng >> 7;
	g_rng ^= g_rng << 17;
	P.nhelpers++;
	return (__u32)(g_rng >> 16);
}

#define XDP_FRAME_RESERVE 40 /* sizeof(struct xdp_frame) kept at the start of the headroom */

long shim_xdp_adjust_tail(struct xdp_md *ctx, int delta)
{
	(void)ctx;
	P.nhelpers++;
	long newlen = (long)P.len + delta;
	if (delta > 0 && delta > P.tailroom)
		return -EINVAL;
	if (newlen < ETH_HLEN)
		return -EINVAL;
	long r = pkt_relocate(0, delta, 0);
	if (r)
		return r;
	P.tailroom -= delta;
	return 0;
}

long shim_xdp_adjust_head(struct xdp_md *ctx, int delta)
{
	(void)ctx;
	P.nhelpers++;
	/* data' = data + delta must stay >= hard_start + sizeof(xdp_frame) and <= data_end - ETH_HLEN */
	if (delta < 0 && -(long)delta > P.headroom - XDP_FRAME_RESERVE)
		return -EINVAL;
	if (delta > 0 && (long)P.len - delta < ETH_HLEN)
		return -EINVAL;
	long r = pkt_relocate(delta, 0, 0x5A);
	if (r)
		return r;
	P.headroom += delta;
	return 0;
}

long shim_xdp_adjust_meta(struct xdp_md *ctx, int delta)
{
	(void)ctx;
	(void)delta;
	P.nhelpers++;
	return -524; /* ENOTSUPP: modelled driver has no metadata support */
}

long shim_redirect(__u32 ifindex, __u64 flags)
{
	P.nhelpers++;
	if (P.kind == SHIM_PROG_XDP) {
		if (flags)
			return XDP_ABORTED;
		P.redirected = 1;
		P.redirect_ifindex = ifindex;
		P.redirect_flags = flags;
		return XDP_REDIRECT;
	}
	if (flags & ~(__u64)BPF_F_INGRESS)
		return TC_ACT_SHOT;
	P.redirected = 1;
	P.redirect_ifindex = ifindex;
	P.redirect_flags = flags;
	return TC_ACT_REDIRECT;
}

long shim_clone_redirect(struct __sk_buff *skb, __u32 ifindex, __u64 flags)
{
	(void)skb;
	P.nhelpers++;
	if (flags & ~(__u64)BPF_F_INGRESS)
		return -EINVAL;
	P.redirected = 2;
	P.redirect_ifindex = ifindex;
	P.redirect_flags = flags;
	return pkt_relocate(0, 0, 0); /* changes packet data in verifier terms */
}

/* ones' complement arithmetic as in the kernel's include/net/checksum.h */
static inline __u32 csum_add(__u32 a, __u32 b)
{
	__u32 r = a + b;
	return r + (r < b);
}
static inline __u32 csum_sub(__u32 a, __u32 b) { return csum_add(a, ~b); }
static inline __u16 csum_fold32(__u32 s)
{
	s = (s & 0xffff) + (s >> 16);
	s = (s & 0xffff) + (s >> 16);
	return (__u16)~s;
}
static inline __u16 csum16_add(__u16 a, __u16 b)
{
	__u16 r = (__u16)(a + b);
	return (__u16)(r + (r < b));
}
static inline __u16 csum16_sub(__u16 a, __u16 b) { return csum16_add(a, (__u16)~b); }
static inline void csum_replace4(__u16 *sum, __u32 from, __u32 to)
{
	*sum = csum_fold32(csum_add(csum_sub(~(__u32)*sum, from), to));
}
static inline void csum_replace2(__u16 *sum, __u16 from, __u16 to)
{
	*sum = (__u16)~csum16_add(csum16_sub((__u16)~*sum, from), to);
}
static inline void csum_replace_by_diff(__u16 *sum, __u32 diff) { *sum = csum_fold32(csum_add(diff, ~(__u32)*sum)); }

static int skb_writable(__u32 off, __u32 len)
{
	if (off > 0xffff)
		return 0;
	return (unsigned long)off + len <= P.len;
}

long shim_skb_store_bytes(struct __sk_buff *skb, __u32 off, const void *from, __u32 len, __u64 flags)
{
	(void)skb;
	P.nhelpers++;
	if (flags & ~(__u64)(BPF_F_RECOMPUTE_CSUM | BPF_F_INVALIDATE_HASH))
		return -EINVAL;
	if (!skb_writable(off, len))
		return -EFAULT;
	unsigned char tmp[512];
	const void *src = from;
	if (len <= sizeof(tmp)) { /* "from" is stack/map memory in BPF; copy before the packet moves */
		memcpy(tmp, from, len);
		src = tmp;
	}
	long r = pkt_relocate(0, 0, 0);
	if (r)
		return r;
	memcpy(P.data + off, src, len);
	return 0;
}

long shim_skb_load_bytes(const struct __sk_buff *skb, __u32 off, void *to, __u32 len)
{
	(void)skb;
	P.nhelpers++;
	if (off > 0x7fffffff || (unsigned long)off + len > P.len) {
		memset(to, 0, len);
		return -EFAULT;
	}
	memcpy(to, P.data + off, len);
	return 0;
}

long shim_l3_csum_replace(struct __sk_buff *skb, __u32 off, __u64 from, __u64 to, __u64 flags)
{
	(void)skb;
	P.nhelpers++;
	if (flags & ~(__u64)BPF_F_HDR_FIELD_MASK)
		return -EINVAL;
	if (!skb_writable(off, 2))
		return -EFAULT;
	long r = pkt_relocate(0, 0, 0);
	if (r)
		return r;
	__u16 sum;
	memcpy(&sum, P.data + off, 2);
	switch (flags & BPF_F_HDR_FIELD_MASK) {
	case 0:
		if (from != 0)
			return -EINVAL;
		csum_replace_by_diff(&sum, (__u32)to);
		break;
	case 2:
		csum_replace2(&sum, (__u16)from, (__u16)to);
		break;
	case 4:
		csum_replace4(&sum, (__u32)from, (__u32)to);
		break;
	default:
		return -EINVAL;
	}
	memcpy(P.data + off, &sum, 2);
	return 0;
}

long shim_l4_csum_replace(struct __sk_buff *skb, __u32 off, __u64 from, __u64 to, __u64 flags)
{
	(void)skb;
	P.nhelpers++;
	int is_mmzero = !!(flags & BPF_F_MARK_MANGLED_0);
	int do_mforce = !!(flags & BPF_F_MARK_ENFORCE);
	if (flags & ~(__u64)(BPF_F_MARK_MANGLED_0 | BPF_F_MARK_ENFORCE | BPF_F_PSEUDO_HDR | BPF_F_HDR_FIELD_MASK))
		return -EINVAL;
	if (!skb_writable(off, 2))
		return -EFAULT;
	long r = pkt_relocate(0, 0, 0);
	if (r)
		return r;
	__u16 sum;
	memcpy(&sum, P.data + off, 2);
	if (is_mmzero && !do_mforce && !sum)
		return 0;
	/* ip_summed is CHECKSUM_NONE in this model: the pseudo-header flag only matters for CHECKSUM_PARTIAL/COMPLETE */
	switch (flags & BPF_F_HDR_FIELD_MASK) {
	case 0:
		if (from != 0)
			return -EINVAL;
		csum_replace_by_diff(&sum, (__u32)to);
		break;
	case 2:
		csum_replace2(&sum, (__u16)from, (__u16)to);
		break;
	case 4:
		csum_replace4(&sum, (__u32)from, (__u32)to);
		break;
	default:
		return -EINVAL;
	}
	if (is_mmzero && !sum)
		sum = 0xffff;
	memcpy(P.data + off, &sum, 2);
	return 0;
}

static __u32 csum_partial_bytes(const unsigned char *p, unsigned n, __u32 sum, int invert)
{
	for (unsigned i = 0; i + 1 < n; i += 2) {
		__u16 w;
		memcpy(&w, p + i, 2);
		if (invert)
			w = (__u16)~w;
		sum = csum_add(sum, w);
	}
	return sum;
}

__s64 shim_csum_diff(const __be32 *from, __u32 from_size, const __be32 *to, __u32 to_size, __u32 seed)
{
	P.nhelpers++;
	if (((from_size | to_size) & 3) || from_size + to_size > 512)
		return -EINVAL;
	__u32 s = seed;
	if (from_size)
		s = csum_partial_bytes((const unsigned char *)from, from_size, s, 1);
	if (to_size)
		s = csum_partial_bytes((const unsigned char *)to, to_size, s, 0);
	return (__s64)s;
}

long shim_skb_pull_data(struct __sk_buff *skb, __u32 len)
{
	(void)skb;
	P.nhelpers++;
	if (len > P.len)
		return -EFAULT;
	return pkt_relocate(0, 0, 0);
}

long shim_skb_change_tail(struct __sk_buff *skb, __u32 len, __u64 flags)
{
	P.nhelpers++;
	if (flags || len > 0x7fffffff || len < ETH_HLEN || len > MAX_FRAME)
		return -EINVAL;
	long r = pkt_relocate(0, (long)len - (long)P.len, 0);
	if (r)
		return r;
	skb->len = P.len;
	return 0;
}

/* ------------------------------------------------------------------------------------------------
 * protocol plumbing
 * ------------------------------------------------------------------------------------------------ */
static unsigned char *g_in;
static size_t g_in_cap, g_in_len, g_in_pos;
static unsigned char *g_out;
static size_t g_out_cap, g_out_len;

static void die(const char *fmt, ...)
{
	char buf[512];
	va_list ap;
	va_start(ap, fmt);
	int n = vsnprintf(buf, sizeof(buf), fmt, ap);
	va_end(ap);
	dump_captured_stderr();
	if (n > 0) {
		ssize_t w = write(g_realerr, "bpfrunner: ", 11);
		w = write(g_realerr, buf, (size_t)n);
		w = write(g_realerr, "\n", 1);
		(void)w;
	}
	_exit(3);
}

static void out_flush(void)
{
	size_t off = 0;
	while (off < g_out_len) {
		ssize_t w = write(1, g_out + off, g_out_len - off);
		if (w < 0) {
			if (errno == EINTR)
				continue;
			_exit(4);
		}
		off += (size_t)w;
	}
	g_out_len = 0;
}

static void out_reserve(size_t n)
{
	if (g_out_len + n <= g_out_cap)
		return;
	size_t c = g_out_cap ? g_out_cap : 1 << 16;
	while (c < g_out_len + n)
		c *= 2;
	g_out = realloc(g_out, c);
	if (!g_out)
		_exit(5);
	g_out_cap = c;
}
static void w_raw(const void *p, size_t n)
{
	out_reserve(n);
	memcpy(g_out + g_out_len, p, n);
	g_out_len += n;
}
static void w_u8(unsigned v)
{
	unsigned char b = (unsigned char)v;
	w_raw(&b, 1);
}
static void w_u32(__u32 v) { w_raw(&v, 4); }
static void w_u64(__u64 v) { w_raw(&v, 8); }
static void w_bytes(const void *p, size_t n)
{
	w_u32((__u32)n);
	w_raw(p, n);
}
static void w_str(const char *s)
{
	size_t n = s ? strlen(s) : 0;
	if (n > 255)
		n = 255;
	w_u8((unsigned)n);
	w_raw(s, n);
}
static size_t g_msg_start;
static void msg_begin(unsigned status)
{
	g_msg_start = g_out_len;
	w_u32(0);
	w_u8(status);
}
static void msg_end(void)
{
	__u32 n = (__u32)(g_out_len - g_msg_start - 4);
	memcpy(g_out + g_msg_start, &n, 4);
}
static void reply_err(const char *fmt, ...)
{
	char buf[256];
	va_list ap;
	va_start(ap, fmt);
	vsnprintf(buf, sizeof(buf), fmt, ap);
	va_end(ap);
	g_out_len = g_msg_start; /* drop a half-built reply */
	msg_begin(1);
	w_raw(buf, strlen(buf));
	msg_end();
}

struct rd {
	const unsigned char *p, *end;
	int bad;
};
static unsigned r_u8(struct rd *r)
{
	if (r->end - r->p < 1) {
		r->bad = 1;
		return 0;
	}
	return *r->p++;
}
static __u32 r_u32(struct rd *r)
{
	__u32 v = 0;
	if (r->end - r->p < 4) {
		r->bad = 1;
		return 0;
	}
	memcpy(&v, r->p, 4);
	r->p += 4;
	return v;
}
static __u64 r_u64(struct rd *r)
{
	__u64 v = 0;
	if (r->end - r->p < 8) {
		r->bad = 1;
		return 0;
	}
	memcpy(&v, r->p, 8);
	r->p += 8;
	return v;
}
static const unsigned char *r_bytes(struct rd *r, __u32 *n)
{
	*n = r_u32(r);
	if (r->bad || (size_t)(r->end - r->p) < *n) {
		r->bad = 1;
		*n = 0;
		return r->p;
	}
	const unsigned char *p = r->p;
	r->p += *n;
	return p;
}
static void r_str(struct rd *r, char *buf, size_t cap)
{
	unsigned n = r_u8(r);
	if (r->bad || (size_t)(r->end - r->p) < n || n >= cap) {
		r->bad = 1;
		buf[0] = 0;
		return;
	}
	memcpy(buf, r->p, n);
	buf[n] = 0;
	r->p += n;
}

static int read_more(void)
{
	if (g_in_pos > 0 && g_in_pos == g_in_len)
		g_in_pos = g_in_len = 0;
	if (g_in_pos > (g_in_cap >> 1)) {
		memmove(g_in, g_in + g_in_pos, g_in_len - g_in_pos);
		g_in_len -= g_in_pos;
		g_in_pos = 0;
	}
	if (g_in_len == g_in_cap) {
		g_in_cap = g_in_cap ? g_in_cap * 2 : 1 << 20;
		g_in = realloc(g_in, g_in_cap);
		if (!g_in)
			_exit(5);
	}
	for (;;) {
		ssize_t n = read(0, g_in + g_in_len, g_in_cap - g_in_len);
		if (n < 0) {
			if (errno == EINTR)
				continue;
			return 0;
		}
		if (n == 0)
			return 0;
		g_in_len += (size_t)n;
		return 1;
	}
}

/* ------------------------------------------------------------------------------------------------
 * commands
 * ------------------------------------------------------------------------------------------------ */
static const char *base_name(const char *p)
{
	const char *s = strrchr(p, '/');
	return s ? s + 1 : p;
}

static unsigned count_progs(void) { return (unsigned)(__stop_shim_progregs - __start_shim_progregs); }
static unsigned count_calls(void) { return (unsigned)(__stop_shim_callregs - __start_shim_callregs); }

static void after_run_cleanup(void)
{
	slots_reset();
	while (g_deferred) {
		struct helem *n = g_deferred->next;
		free(g_deferred);
		g_deferred = n;
	}
}

static unsigned drop_pending(void)
{
	unsigned n = 0;
	while (g_pending) {
		struct rbrec *r = g_pending;
		g_pending = r->next;
		free(r);
		n++;
	}
	return n;
}

static void write_fault(int kind)
{
	long rel = 0;
	int where = W_NONE;
	unsigned long addr = 0;
	if (kind == F_SEGV || kind == F_BUS) {
		addr = g_fault.addr;
		where = classify(addr, &rel);
	} else if (kind == F_CANARY) {
		rel = P.canary_off;
		where = rel < 0 ? W_BEFORE : W_AFTER;
		addr = (unsigned long)P.data + (unsigned long)rel;
	}
	w_u8((unsigned)kind);
	w_u64(addr);
	w_u64((__u64)rel);
	w_u8((unsigned)where);
}

static void cmd_run(struct rd *r)
{
	char name[128];
	r_str(r, name, sizeof(name));
	unsigned placement = r_u8(r);
	__u32 flags = r_u32(r);
	__u32 ifindex = r_u32(r), ingress_ifindex = r_u32(r), rxq = r_u32(r), protocol = r_u32(r);
	__u32 mark = r_u32(r), priority = r_u32(r), len_override = r_u32(r);
	__s32 tailroom = (__s32)r_u32(r), headroom = (__s32)r_u32(r);
	__u64 seed = r_u64(r);
	__u32 flen;
	const unsigned char *frame = r_bytes(r, &flen);
	(void)flags;
	if (r->bad)
		return reply_err("RUN: malformed request");
	if (flen > MAX_FRAME)
		return reply_err("RUN: frame too long (%u > %lu)", flen, MAX_FRAME);
	if (placement > 1)
		return reply_err("RUN: bad placement %u", placement);
	struct shim_progreg *pg = NULL;
	for (struct shim_progreg *q = __start_shim_progregs; q < __stop_shim_progregs; q++)
		if (!strcmp(q->name, name))
			pg = q;
	if (!pg)
		return reply_err("RUN: unknown program %s", name);

	memset(&P, 0, sizeof(P));
	P.kind = (int)pg->kind;
	P.placement = (int)placement;
	P.cur = &g_slots[0];
	P.data = slot_place(P.cur, P.placement, flen);
	P.len = flen;
	memcpy(P.data, frame, flen);
	P.headroom = headroom >= 0 ? headroom : 256;
	P.tailroom = tailroom >= 0 ? tailroom : (flen + 256 + 320 < 4096 ? 4096 - 320 - 256 - (long)flen : 0);
	if (P.kind == SHIM_PROG_XDP) {
		P.ctx.xdp.ingress_ifindex = ingress_ifindex ? ingress_ifindex : ifindex;
		P.ctx.xdp.rx_queue_index = rxq;
	} else {
		struct __sk_buff *s = &P.ctx.skb;
		s->len = len_override ? len_override : flen;
		s->wire_len = s->len;
		s->ifindex = ifindex;
		s->ingress_ifindex = ingress_ifindex;
		s->mark = mark;
		s->priority = priority;
		s->queue_mapping = rxq;
		if (protocol)
			s->protocol = protocol;
		else if (flen >= 14) {
			__u16 p16;
			memcpy(&p16, frame + 12, 2);
			s->protocol = p16;
		}
	}
	ctx_sync();
	g_rng = seed ? seed : 0x9E3779B97F4A7C15ULL;
	memset(g_bitmap, 0, (g_nsites + 7) / 8);

	volatile int verdict = 0;
	g_fault.kind = F_NONE;
	g_run_seq++;
	if (sigsetjmp(g_env, 0) == 0) {
		g_inrun = 1;
		verdict = pg->fn(&P.ctx);
		g_inrun = 0;
	} else {
		g_inrun = 0;
	}
	int kind = g_fault.kind;
	char msg[2048];
	unsigned msglen = 0;
	if (kind == F_UBSAN)
		msglen = take_captured_stderr(msg, sizeof(msg));
	if (kind == F_NONE) {
		canary_check();
		if (P.canary_bad)
			kind = F_CANARY;
	}
	unsigned leaks = drop_pending();

	msg_begin(0);
	w_u32((__u32)verdict);
	write_fault(kind);
	w_bytes(P.data, P.len); /* the current slot is always accessible */
	if (P.kind == SHIM_PROG_TC) {
		struct __sk_buff *s = &P.ctx.skb;
		w_u32(s->mark);
		w_u32(s->priority);
		w_u32(s->tc_index);
		w_u32(s->tc_classid);
		w_u32(s->queue_mapping);
		for (int i = 0; i < 5; i++)
			w_u32(s->cb[i]);
	} else {
		for (int i = 0; i < 10; i++)
			w_u32(0);
	}
	w_u8((unsigned)P.redirected);
	w_u32(P.redirect_ifindex);
	w_u64(P.redirect_flags);
	w_u32(P.nlookups);
	w_u32(P.nhelpers);
	w_u32(P.nreloc);
	w_u32(leaks);
	w_bytes(g_bitmap, (g_nsites + 7) / 8);
	w_bytes(msg, msglen);
	msg_end();
	after_run_cleanup();
	if (kind == F_TIMEOUT)
		g_exit_after_reply = 1; /* unwound from an arbitrary point: do not trust the heap any more */
}

static unsigned char g_callout[8192];

static void cmd_call(struct rd *r)
{
	char name[128];
	r_str(r, name, sizeof(name));
	unsigned placement = r_u8(r);
	struct shim_call c;
	memset(&c, 0, sizeof(c));
	for (int i = 0; i < 4; i++)
		c.a[i] = r_u64(r);
	__u32 inlen, auxlen;
	const unsigned char *in = r_bytes(r, &inlen);
	const unsigned char *aux = r_bytes(r, &auxlen);
	if (r->bad || inlen > MAX_FRAME || placement > 1)
		return reply_err("CALL: malformed request");
	struct shim_callreg *cr = NULL;
	for (struct shim_callreg *q = __start_shim_callregs; q < __stop_shim_callregs; q++)
		if (!strcmp(q->name, name))
			cr = q;
	if (!cr)
		return reply_err("CALL: unknown helper %s", name);
	memset(&P, 0, sizeof(P));
	P.placement = (int)placement;
	P.cur = &g_slots[0];
	P.data = slot_place(P.cur, P.placement, inlen);
	P.len = inlen;
	memcpy(P.data, in, inlen);
	c.in = P.data;
	c.in_end = P.data + inlen;
	c.aux = aux;
	c.aux_len = auxlen;
	c.out = g_callout;
	c.out_cap = sizeof(g_callout);
	memset(g_bitmap, 0, (g_nsites + 7) / 8);
	volatile __u64 ret = 0;
	static struct shim_call cs; /* survives the longjmp */
	cs = c;
	g_fault.kind = F_NONE;
	g_run_seq++;
	if (sigsetjmp(g_env, 0) == 0) {
		g_inrun = 1;
		ret = cr->fn(&cs);
		g_inrun = 0;
	} else {
		g_inrun = 0;
	}
	int kind = g_fault.kind;
	char msg[2048];
	unsigned msglen = 0;
	if (kind == F_UBSAN)
		msglen = take_captured_stderr(msg, sizeof(msg));
	if (kind == F_NONE) {
		canary_check();
		if (P.canary_bad)
			kind = F_CANARY;
	}
	drop_pending();
	msg_begin(0);
	w_u64(ret);
	write_fault(kind);
	w_bytes(P.data, P.len);
	w_bytes(cs.out, cs.out_len <= cs.out_cap ? cs.out_len : 0);
	w_bytes(msg, msglen);
	msg_end();
	after_run_cleanup();
	if (kind == F_TIMEOUT)
		g_exit_after_reply = 1;
}

static void cmd_dump(struct rd *r)
{
	char name[128];
	r_str(r, name, sizeof(name));
	struct rmap *m = r->bad ? NULL : map_by_name(name);
	if (!m)
		return reply_err("DUMP: unknown map %s", name);
	msg_begin(0);
	size_t npos = g_out_len;
	w_u32(0);
	__u32 n = 0;
	switch (m->kind) {
	case K_HASH:
		for (unsigned i = 0; i < m->nbuckets; i++)
			for (struct helem *e = m->buckets[i]; e; e = e->next) {
				w_bytes(e->data, m->ksz);
				w_bytes(e->data + m->kpad, m->vsz);
				n++;
			}
		break;
	case K_LPM:
		for (struct helem *e = m->list; e; e = e->next) {
			w_bytes(e->data, m->ksz);
			w_bytes(e->data + m->kpad, m->vsz);
			n++;
		}
		break;
	case K_ARRAY:
		for (__u32 i = 0; i < m->maxent; i++) {
			w_bytes(&i, 4);
			w_bytes(m->arr + (size_t)i * m->vstride, m->vsz);
			n++;
		}
		break;
	case K_SINK:
		for (struct ev *e = m->ev_head; e; e = e->next) {
			w_bytes("", 0);
			w_bytes(e->data, e->len);
			n++;
		}
		break;
	}
	memcpy(g_out + npos, &n, 4);
	msg_end();
}

static void handle(const unsigned char *p, size_t n)
{
	struct rd r = { p, p + n, 0 };
	unsigned op = r_u8(&r);
	char name[128];
	g_msg_start = g_out_len;
	switch (op) {
	case OP_HELLO:
		msg_begin(0);
		w_u32(PROTO_VERSION);
		w_u32(g_nsites);
		w_u32(g_nmaps);
		w_u32(count_progs());
		w_u32(count_calls());
		w_u32((__u32)MAX_FRAME);
		msg_end();
		break;
	case OP_MAPINFO:
		msg_begin(0);
		w_u32(g_nmaps);
		for (struct rmap *m = g_maps; m; m = m->next) {
			w_str(m->name);
			w_str(m->src);
			w_u32(m->type);
			w_u32(m->ksz);
			w_u32(m->vsz);
			w_u32(m->maxent);
			w_u32(m->flags);
			w_u32(m->kind == K_ARRAY ? m->maxent : m->count);
		}
		msg_end();
		break;
	case OP_PROGS:
		msg_begin(0);
		w_u32(count_progs());
		for (struct shim_progreg *q = __start_shim_progregs; q < __stop_shim_progregs; q++) {
			w_str(q->name);
			w_str(q->sec);
			w_str(q->src);
			w_u8((unsigned)q->kind);
		}
		msg_end();
		break;
	case OP_SITES:
		msg_begin(0);
		w_u32(g_nsites);
		for (unsigned i = 0; i < g_nsites; i++) {
			w_str(base_name(__start_shim_sites[i].file));
			w_u32((__u32)__start_shim_sites[i].line);
			w_str(__start_shim_sites[i].map[0] == '&' ? __start_shim_sites[i].map + 1 : __start_shim_sites[i].map);
		}
		msg_end();
		break;
	case OP_CALLS:
		msg_begin(0);
		w_u32(count_calls());
		for (struct shim_callreg *q = __start_shim_callregs; q < __stop_shim_callregs; q++)
			w_str(q->name);
		msg_end();
		break;
	case OP_LOAD: {
		r_str(&r, name, sizeof(name));
		__u32 kl, vl;
		const unsigned char *k = r_bytes(&r, &kl);
		const unsigned char *v = r_bytes(&r, &vl);
		__u64 fl = r_u64(&r);
		struct rmap *m = r.bad ? NULL : map_by_name(name);
		if (!m) {
			reply_err("LOAD: unknown map %s", name);
			break;
		}
		if (m->kind == K_SINK || m->kind == K_OTHER) {
			reply_err("LOAD: map %s (type %u) cannot be loaded", name, m->type);
			break;
		}
		if (kl != m->ksz || vl != m->vsz) {
			reply_err("LOAD: map %s wants key %u value %u bytes, got %u/%u", name, m->ksz, m->vsz, kl, vl);
			break;
		}
		long rc = map_update(m, k, v, fl);
		if (rc) {
			reply_err("LOAD: map %s update failed: errno %ld", name, -rc);
			break;
		}
		msg_begin(0);
		msg_end();
		break;
	}
	case OP_DELETE: {
		r_str(&r, name, sizeof(name));
		__u32 kl;
		const unsigned char *k = r_bytes(&r, &kl);
		struct rmap *m = r.bad ? NULL : map_by_name(name);
		if (!m || kl != m->ksz) {
			reply_err("DELETE: unknown map or bad key size (%s)", name);
			break;
		}
		long rc = map_delete(m, k);
		msg_begin(0);
		w_u8(rc == 0);
		msg_end();
		break;
	}
	case OP_CLEAR: {
		r_str(&r, name, sizeof(name));
		if (r.bad) {
			reply_err("CLEAR: malformed");
			break;
		}
		if (!name[0]) {
			for (struct rmap *m = g_maps; m; m = m->next)
				map_clear(m);
		} else {
			struct rmap *m = map_by_name(name);
			if (!m) {
				reply_err("CLEAR: unknown map %s", name);
				break;
			}
			map_clear(m);
		}
		msg_begin(0);
		msg_end();
		break;
	}
	case OP_DUMP:
		cmd_dump(&r);
		break;
	case OP_CLOCK:
		g_clock = r_u64(&r);
		g_clock_step = r_u64(&r);
		if (r.bad) {
			reply_err("CLOCK: malformed");
			break;
		}
		msg_begin(0);
		msg_end();
		break;
	case OP_RUN:
		cmd_run(&r);
		break;
	case OP_CALL:
		cmd_call(&r);
		break;
	case OP_QUIT:
		msg_begin(0);
		msg_end();
		out_flush();
		_exit(0);
	default:
		reply_err("unknown op %u", op);
	}
}

int main(void)
{
	g_realerr = dup(2);
	g_errfd = memfd_create("bpfrunner-stderr", 0);
	if (g_errfd >= 0)
		dup2(g_errfd, 2);
	__sanitizer_set_death_callback(on_sanitizer_death);

	g_nsites = (unsigned)(__stop_shim_sites - __start_shim_sites);
	g_bitmap = calloc((g_nsites + 7) / 8 + 1, 1);
	for (struct shim_mapreg *q = __start_shim_mapregs; q < __stop_shim_mapregs; q++) {
		if (!q->name)
			continue;
		struct rmap *m = map_create(q->name, q->src, q->var, q->type, q->ksz, q->vsz, q->maxent, q->flags);
		*(struct rmap **)q->var = m;
	}
	if (!slot_new())
		die("cannot map a guarded MAP_32BIT packet slot: %s", strerror(errno));

	struct sigaction sa;
	memset(&sa, 0, sizeof(sa));
	sa.sa_sigaction = on_fault;
	sa.sa_flags = SA_SIGINFO | SA_NODEFER;
	sigaction(SIGSEGV, &sa, NULL);
	sigaction(SIGBUS, &sa, NULL);
	sigaction(SIGFPE, &sa, NULL);
	sigaction(SIGILL, &sa, NULL);
	memset(&sa, 0, sizeof(sa));
	sa.sa_handler = on_alarm;
	sa.sa_flags = SA_NODEFER | SA_RESTART;
	sigaction(SIGPROF, &sa, NULL);
	signal(SIGPIPE, SIG_IGN);
	/* CPU-time timer (user+system time of this process): a descheduled runner does not time out, a
	 * program spinning in a loop does after 0.1-0.2 s of CPU */
	struct itimerval it = { { 0, 100000 }, { 0, 100000 } };
	const char *ms = getenv("BPFRUNNER_TICK_MS");
	if (ms && atoi(ms) > 0) {
		it.it_interval.tv_sec = it.it_value.tv_sec = atoi(ms) / 1000;
		it.it_interval.tv_usec = it.it_value.tv_usec = (atoi(ms) % 1000) * 1000;
	}
	setitimer(ITIMER_PROF, &it, NULL);

	for (;;) {
		/* complete message available? */
		while (g_in_len - g_in_pos >= 4) {
			__u32 n;
			memcpy(&n, g_in + g_in_pos, 4);
			if (n > (64u << 20))
				die("oversized request (%u bytes)", n);
			if (g_in_len - g_in_pos - 4 < n)
				break;
			handle(g_in + g_in_pos + 4, n);
			g_in_pos += 4 + (size_t)n;
			if (g_exit_after_reply) {
				out_flush();
				_exit(0);
			}
		}
		out_flush(); /* replies go out only when the input is drained: pipelining friendly */
		if (!read_more())
			break;
	}
	return 0;
}
