/* Native stand-in for libbpf's bpf_helpers.h.
 *
 * The BPF C sources are compiled unchanged for x86-64.  Map declarations keep
 * libbpf's __uint/__type encoding (so every map is a typed anonymous struct);
 * helper calls become calls into the runner (native/runner.c) which implements
 * the helper semantics on ordinary memory.  See native/README.md.
 */
#ifndef __SHIM_BPF_HELPERS__
#define __SHIM_BPF_HELPERS__
#include <linux/bpf.h>
#include <linux/types.h>
#include "shim.h"

#define SEC(name)
#define __uint(name, val) int (*name)[val]
#define __type(name, val) typeof(val) *name
#define __array(name, val) typeof(val) *name[]

#undef __always_inline
#define __always_inline inline __attribute__((always_inline))
#ifndef __noinline
#define __noinline __attribute__((noinline))
#endif
#ifndef __weak
#define __weak __attribute__((weak))
#endif
#define __hidden
#define __kconfig
#define __ksym
#ifndef NULL
#define NULL ((void *)0)
#endif
#ifndef offsetof
#define offsetof(T, m) __builtin_offsetof(T, m)
#endif
#ifndef likely
#define likely(x) __builtin_expect(!!(x), 1)
#define unlikely(x) __builtin_expect(!!(x), 0)
#endif
#define barrier() asm volatile("" ::: "memory")
#define barrier_var(var) asm volatile("" : "+r"(var))

/* ---- maps: the call site supplies the declared geometry of the map -------------------------- */
#define SHIM_SITE(m) ({ static struct shim_site __shim_s __attribute__((section("shim_sites"), used, aligned(8))) = \
                            { __FILE__, __LINE__, #m }; &__shim_s; })
#define SHIM_GEOM(m) #m, (unsigned)(sizeof(*(m)->type) / sizeof(int)), (unsigned)sizeof(*(m)->key), \
                     (unsigned)sizeof(*(m)->value), (unsigned)(sizeof(*(m)->max_entries) / sizeof(int))

#define bpf_map_lookup_elem(m, k)       shim_map_lookup((void *)(m), (const void *)(k), SHIM_SITE(m), SHIM_GEOM(m))
#define bpf_map_update_elem(m, k, v, f) shim_map_update((void *)(m), (const void *)(k), (const void *)(v), (__u64)(f), SHIM_GEOM(m))
#define bpf_map_delete_elem(m, k)       shim_map_delete((void *)(m), (const void *)(k), SHIM_GEOM(m))

/* sinks (no key/value members in the declaration) */
#define SHIM_SINK(m) (void *)(m), #m, (unsigned)(sizeof(*(m)->type) / sizeof(int))
#define bpf_perf_event_output(ctx, m, flags, data, size) shim_perf_event_output((void *)(ctx), SHIM_SINK(m), (__u64)(flags), (void *)(data), (__u64)(size))
#define bpf_ringbuf_reserve(m, size, flags)              shim_ringbuf_reserve(SHIM_SINK(m), (unsigned)(sizeof(*(m)->max_entries) / sizeof(int)), (__u64)(size), (__u64)(flags))
#define bpf_ringbuf_output(m, data, size, flags)         shim_ringbuf_output(SHIM_SINK(m), (unsigned)(sizeof(*(m)->max_entries) / sizeof(int)), (void *)(data), (__u64)(size), (__u64)(flags))
#define bpf_ringbuf_submit(p, flags)                     shim_ringbuf_commit((void *)(p), (__u64)(flags), 0)
#define bpf_ringbuf_discard(p, flags)                    shim_ringbuf_commit((void *)(p), (__u64)(flags), 1)

/* ---- scalar helpers -------------------------------------------------------------------------- */
#define bpf_ktime_get_ns()          shim_ktime_get_ns()
#define bpf_ktime_get_boot_ns()     shim_ktime_get_ns()
#define bpf_ktime_get_coarse_ns()   shim_ktime_get_ns()
#define bpf_get_prandom_u32()       shim_prandom_u32()
#define bpf_get_smp_processor_id()  0U
#define bpf_printk(fmt, ...)        ((void)0)
#define bpf_trace_printk(fmt, ...)  (0L)

/* ---- packet helpers (XDP) -------------------------------------------------------------------- */
#define bpf_xdp_adjust_tail(ctx, delta) shim_xdp_adjust_tail((struct xdp_md *)(ctx), (int)(delta))
#define bpf_xdp_adjust_head(ctx, delta) shim_xdp_adjust_head((struct xdp_md *)(ctx), (int)(delta))
#define bpf_xdp_adjust_meta(ctx, delta) shim_xdp_adjust_meta((struct xdp_md *)(ctx), (int)(delta))
#define bpf_redirect(ifindex, flags)    shim_redirect((__u32)(ifindex), (__u64)(flags))

/* ---- packet helpers (TC / __sk_buff) --------------------------------------------------------- */
#define bpf_skb_store_bytes(skb, off, from, len, flags) shim_skb_store_bytes((struct __sk_buff *)(skb), (__u32)(off), (const void *)(from), (__u32)(len), (__u64)(flags))
#define bpf_skb_load_bytes(skb, off, to, len)           shim_skb_load_bytes((const struct __sk_buff *)(skb), (__u32)(off), (void *)(to), (__u32)(len))
#define bpf_l3_csum_replace(skb, off, from, to, flags)  shim_l3_csum_replace((struct __sk_buff *)(skb), (__u32)(off), (__u64)(from), (__u64)(to), (__u64)(flags))
#define bpf_l4_csum_replace(skb, off, from, to, flags)  shim_l4_csum_replace((struct __sk_buff *)(skb), (__u32)(off), (__u64)(from), (__u64)(to), (__u64)(flags))
#define bpf_csum_diff(from, fsz, to, tsz, seed)         shim_csum_diff((const __be32 *)(from), (__u32)(fsz), (const __be32 *)(to), (__u32)(tsz), (__u32)(seed))
#define bpf_skb_pull_data(skb, len)                     shim_skb_pull_data((struct __sk_buff *)(skb), (__u32)(len))
#define bpf_skb_change_tail(skb, len, flags)            shim_skb_change_tail((struct __sk_buff *)(skb), (__u32)(len), (__u64)(flags))
#define bpf_clone_redirect(skb, ifindex, flags)         shim_clone_redirect((struct __sk_buff *)(skb), (__u32)(ifindex), (__u64)(flags))

#endif
