/* Native (x86-64, little-endian) stand-in for libbpf's bpf_endian.h. */
#ifndef __SHIM_BPF_ENDIAN__
#define __SHIM_BPF_ENDIAN__
#include <linux/types.h>

#define ___bpf_swab16(x) ((__u16)((((__u16)(x) & 0x00ffU) << 8) | (((__u16)(x) & 0xff00U) >> 8)))
#define ___bpf_swab32(x) ((__u32)((((__u32)(x) & 0x000000ffUL) << 24) | (((__u32)(x) & 0x0000ff00UL) << 8) | \
                                  (((__u32)(x) & 0x00ff0000UL) >> 8) | (((__u32)(x) & 0xff000000UL) >> 24)))
#define ___bpf_swab64(x) ((__u64)((((__u64)(x) & 0x00000000000000ffULL) << 56) | (((__u64)(x) & 0x000000000000ff00ULL) << 40) | \
                                  (((__u64)(x) & 0x0000000000ff0000ULL) << 24) | (((__u64)(x) & 0x00000000ff000000ULL) << 8) | \
                                  (((__u64)(x) & 0x000000ff00000000ULL) >> 8) | (((__u64)(x) & 0x0000ff0000000000ULL) >> 24) | \
                                  (((__u64)(x) & 0x00ff000000000000ULL) >> 40) | (((__u64)(x) & 0xff00000000000000ULL) >> 56)))

#if __BYTE_ORDER__ != __ORDER_LITTLE_ENDIAN__
#error "the native shim assumes a little-endian host (same as the bpfel target)"
#endif
#define __bpf_ntohs(x) __builtin_bswap16(x)
#define __bpf_htons(x) __builtin_bswap16(x)
#define __bpf_constant_ntohs(x) ___bpf_swab16(x)
#define __bpf_constant_htons(x) ___bpf_swab16(x)
#define __bpf_ntohl(x) __builtin_bswap32(x)
#define __bpf_htonl(x) __builtin_bswap32(x)
#define __bpf_constant_ntohl(x) ___bpf_swab32(x)
#define __bpf_constant_htonl(x) ___bpf_swab32(x)
#define __bpf_be64_to_cpu(x) __builtin_bswap64(x)
#define __bpf_cpu_to_be64(x) __builtin_bswap64(x)
#define __bpf_constant_be64_to_cpu(x) ___bpf_swab64(x)
#define __bpf_constant_cpu_to_be64(x) ___bpf_swab64(x)

#define bpf_htons(x) (__builtin_constant_p(x) ? __bpf_constant_htons(x) : __bpf_htons(x))
#define bpf_ntohs(x) (__builtin_constant_p(x) ? __bpf_constant_ntohs(x) : __bpf_ntohs(x))
#define bpf_htonl(x) (__builtin_constant_p(x) ? __bpf_constant_htonl(x) : __bpf_htonl(x))
#define bpf_ntohl(x) (__builtin_constant_p(x) ? __bpf_constant_ntohl(x) : __bpf_ntohl(x))
#define bpf_cpu_to_be64(x) (__builtin_constant_p(x) ? __bpf_constant_cpu_to_be64(x) : __bpf_cpu_to_be64(x))
#define bpf_be64_to_cpu(x) (__builtin_constant_p(x) ? __bpf_constant_be64_to_cpu(x) : __bpf_be64_to_cpu(x))
#endif
