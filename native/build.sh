#!/bin/sh
# build.sh <outdir>: compile the BPF C sources of $VERIF_REPO/bpf natively (x86-64, clang, UBSan) together
# with the runner core into <outdir>/bpfrunner.  Always rebuilds from the current sources.
set -eu
OUT=${1:?usage: build.sh <outdir>}
HERE=$(cd "$(dirname "$0")" && pwd)
REPO=${VERIF_REPO:-/repo}
CC=${CLANG:-clang}
GEN="$OUT/native-gen"
rm -rf "$GEN" "$OUT/bpfrunner"
mkdir -p "$GEN"
CFLAGS="-O1 -g -fsanitize=undefined -fno-sanitize=alignment -fno-sanitize-recover=undefined -fno-strict-aliasing \
 -Wall -Wno-unused-function -Wno-unused-variable -Wno-pass-failed -Wno-macro-redefined -Wno-unknown-pragmas \
 -I $HERE/shim -I $REPO/bpf"
pids=""
objs=""
PY=/usr/bin/python3
[ -x "$PY" ] || PY=python3
"$PY" "$HERE/gen.py" "$HERE" "$GEN" "$REPO"/bpf/*.c 2>"$GEN/gen.log" || { cat "$GEN/gen.log" >&2; exit 1; }
for src in "$REPO"/bpf/*.c; do
	stem=$(basename "$src" .c)
	( $CC $CFLAGS -c "$GEN/wrap_$stem.c" -o "$GEN/wrap_$stem.o" ) &
	pids="$pids $!"
	objs="$objs $GEN/wrap_$stem.o"
done
( $CC $CFLAGS -c "$HERE/runner.c" -o "$GEN/runner.o" ) &
pids="$pids $!"
rc=0
for p in $pids; do wait "$p" || rc=1; done
[ $rc -eq 0 ] || { echo "native build: compilation failed" >&2; exit 1; }
$CC -g -fsanitize=undefined -o "$OUT/bpfrunner" "$GEN/runner.o" $objs
# record layouts for C06 and for humans (best effort, not needed by the runner)
echo "built $OUT/bpfrunner"
