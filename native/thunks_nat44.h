/* CALL thunks for bpf/nat44.c */
SHIM_CALL_NAMED(SHIM_SRC, csum_fold, nat44_csum_fold)
{
	return csum_fold((__u32)c->a[0]);
}
SHIM_CALL_NAMED(SHIM_SRC, update_csum, nat44_update_csum)
{
	/* a0 = checksum field value, a1 = old 32-bit value, a2 = new 32-bit value -> new checksum field */
	__u16 s = (__u16)c->a[0];
	update_csum(&s, (__u32)c->a[1], (__u32)c->a[2]);
	return s;
}
SHIM_CALL_NAMED(SHIM_SRC, update_csum16, nat44_update_csum16)
{
	__u16 s = (__u16)c->a[0];
	update_csum16(&s, (__u16)c->a[1], (__u16)c->a[2]);
	return s;
}
SHIM_CALL_NAMED(SHIM_SRC, is_private_ip, nat44_is_private_ip)
{
	return (__u64)is_private_ip((__u32)c->a[0]);
}
SHIM_CALL_NAMED(SHIM_SRC, is_hairpin_target, nat44_is_hairpin_target)
{
	return (__u64)is_hairpin_target((__u32)c->a[0]);
}
SHIM_CALL_NAMED(SHIM_SRC, allocate_port_from_block, nat44_allocate_port_from_block)
{
	/* in = struct port_block (updated in place); a0 preserve_parity, a1 orig_port, a2 internal_ip, a3 protocol */
	if ((unsigned long)(c->in_end - c->in) < sizeof(struct port_block))
		return (__u64)-22;
	struct port_block b;
	__builtin_memcpy(&b, c->in, sizeof(b));
	__u16 p = allocate_port_from_block(&b, (__u8)c->a[0], (__u16)c->a[1], (__u32)c->a[2], (__u8)c->a[3]);
	__builtin_memcpy(c->in, &b, sizeof(b));
	return p;
}
