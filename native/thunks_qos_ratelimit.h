/* CALL thunks for bpf/qos_ratelimit.c */
SHIM_CALL_NAMED(SHIM_SRC, token_bucket_check, qos_token_bucket_check)
{
	/* in = struct token_bucket (updated in place, returned as Buf); a0 = packet length; clock from CLOCK */
	if ((unsigned long)(c->in_end - c->in) < sizeof(struct token_bucket))
		return (__u64)-22;
	struct token_bucket tb;
	__builtin_memcpy(&tb, c->in, sizeof(tb));
	int r = token_bucket_check(&tb, (__u32)c->a[0]);
	__builtin_memcpy(c->in, &tb, sizeof(tb));
	return (__u64)r;
}
