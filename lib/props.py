"""Per-property driver configuration: one JSON file per property under lib/props.d/ (see DESIGN.md section 2).

keys: pkg, level (exploration|fault_enumeration), rule, technique, level_text, level_note, assumptions,
      quick/thorough: {timeout (s, per process), shards (processes per TestProp* function)},
      optional: native (bool: build native runner), race (bool), parallel (max concurrent processes),
                shards_for: {TestName: {quick: n, thorough: n}}, claimed (bool, default true), na_reason
"""
import glob, json, os

PROPS = {}
for _p in sorted(glob.glob(os.path.join(os.path.dirname(os.path.abspath(__file__)), "props.d", "C*.json"))):
    PROPS[os.path.basename(_p)[:-5]] = json.load(open(_p))
