"""Per-property configuration of the driver (see DESIGN.md section 2)."""

PROPS = {
    "C01": {
        "pkg": "c01",
        "level": "exploration",
        "rule": ("rapid state machines: histories of alloc/allocSpecific/renew/release/releaseValue/advanceEpoch/reload "
                 "over a 6-subscriber alphabet and generated pool geometries, one machine per pool implementation, checked "
                 "step by step against a reference map model (uniqueness, in-range, same value on re-ask); plus concurrent "
                 "phases. Non-trivial = a value given up by one subscriber (release/expiry/reload) is later handed to a "
                 "different subscriber, or >=2 concurrent allocators; distinct = FNV-64 of implementation + op history."),
        "quick": {"timeout": 300, "shards": 1},
        "thorough": {"timeout": 3000, "shards": 2},
        "assumptions": ["go1.25 runtime", "pgregory.net/rapid v1.3.0 generation/shrinking",
                        "reference model in harness/c01/model_test.go"],
    },
}
