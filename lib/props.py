"""Per-property driver configuration: one JSON file per property under lib/props.d/ (see DESIGN.md section 2).

keys: pkg, level (exploration|fault_enumeration), rule, technique, level_text, level_note, assumptions,
      quick/thorough: {timeout (s, per process), shards (processes per TestProp* function)},
      optional: native (bool: build native runner), race (bool), parallel (max concurrent processes),
                shards_for: {TestName: {quick: n, thorough: n}}, claimed (bool, default true), na_reason,
                fuzz: {seconds_per_target (default 30), parallel (workers per target, default 2), minimize_seconds
                       (default 2), instrument (package pattern built with -d=libfuzzer coverage counters in the
                       thorough tier)} - budget of the native `go test -fuzz` tier the driver runs in THOROUGH for
                       every `func FuzzXxx(*testing.F)` of the package (their seed corpora run as plain tests in
                       both tiers); packages without Fuzz* functions are unaffected
"""
import glob, json, os

PROPS = {}
for _p in sorted(glob.glob(os.path.join(os.path.dirname(os.path.abspath(__file__)), "props.d", "C*.json"))):
    PROPS[os.path.basename(_p)[:-5]] = json.load(open(_p))
