"""Per-property configuration of the driver (see DESIGN.md section 2)."""

PROPS = {
    "C01": {
        "pkg": "c01",
        "level": "exploration",
        "rule": ("rapid state machines: histories of alloc/allocSpecific/renew/release/releaseValue/advanceEpoch/reload "
                 "over a 6-subscriber alphabet and generated pool geometries, one machine per pool implementation, checked "
                 "step by step against a reference map model (uniqueness, in-range, same value on re-ask); plus concurrent "
                 "phases. Non-trivial = a value given up by one subscriber (release/expiry/reload) is later handed to a "
                 "different subscriber, or >=2 concurrent allocators; distinct = FNV-64 of implementation + op history."),
        "quick": {"timeout": 300, "shards": 1},
        "thorough": {"timeout": 3000, "shards": 2},
        "technique": "model-based stateful property testing (rapid state machines vs reference map model), concurrent stress phases",
        "level_text": ("Generated-history search: every pool implementation is driven through thousands of random op histories "
                       "(and, in thorough, bounded-exhaustive ones) and compared step by step with a reference model. "
                       "It cannot show absence; it shows the property held on everything generated."),
        "level_note": "Trusted: the reference model, rapid, Go runtime. Concurrency is stress (real goroutines), not schedule enumeration.",
        "assumptions": ["go1.25 runtime", "pgregory.net/rapid v1.3.0 generation/shrinking",
                        "reference model in harness/c01/model_test.go"],
    },
}
