#!/bin/sh
# usage: lib/apply_fix.sh <patch> "<commit message starting with fix:>" <go test packages...>
set -e
P=$(realpath "$1"); MSG="$2"; shift 2
cd /repo
git apply --check "$P" 2>/dev/null && git apply "$P" || patch -p1 --no-backup-if-mismatch < "$P"
export GOFLAGS=-mod=mod GOPROXY=off
go build ./... && go test -vet=off -count=1 "$@" 2>&1 | tail -5
git status --short | grep -v '^??' || true
FILES=$(git diff --name-only)
git add $FILES
git commit -q -m "$MSG"
git log --oneline -1
