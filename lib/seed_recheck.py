#!/usr/bin/env python3
"""Re-run the quick check of every kept seeded change against /repo's current HEAD (the fixes applied since a seed
was written may have changed the code it patches).

  lib/seed_recheck.py [name ...]     default: every directory under seeded/

For each seed: scratch copy of /repo, apply patch.diff, go build, VERIF_REPO=<copy> ./check <property> (quick).
Writes the outcome to seeded/<name>/meta.json -> verified_by_lead.recheck and prints one line per seed.
"""
import json, os, re, shutil, subprocess, sys, hashlib, glob
ROOT = os.path.dirname(os.path.dirname(os.path.abspath(__file__)))


def sh(cmd, cwd, env=None, timeout=3600):
    e = dict(os.environ)
    e.update({"GOFLAGS": "-mod=mod", "GOPROXY": "off"})
    e.pop("GOSUMDB", None)
    if env:
        e.update(env)
    r = subprocess.run(cmd, shell=True, cwd=cwd, env=e, capture_output=True, text=True, timeout=timeout)
    return r.returncode, r.stdout + r.stderr


names = sys.argv[1:] or sorted(os.listdir(os.path.join(ROOT, "seeded")))
head = subprocess.run(["git", "-C", "/repo", "log", "--format=%h", "-1"], capture_output=True, text=True).stdout.strip()
for name in names:
    d = os.path.join(ROOT, "seeded", name)
    mp = os.path.join(d, "meta.json")
    if not os.path.exists(mp):
        continue
    meta = json.load(open(mp))
    prop = meta["property"]
    scratch = "/tmp/sr-" + name
    shutil.rmtree(scratch, ignore_errors=True)
    shutil.copytree("/repo", scratch, ignore=shutil.ignore_patterns(".git"))
    res = {"repo_head": head}
    try:
        rc, out = sh("git apply --whitespace=nowarn %s" % os.path.join(d, "patch.diff"), scratch)
        if rc != 0:
            rc, out = sh("patch -p1 --no-backup-if-mismatch -F3 < %s" % os.path.join(d, "patch.diff"), scratch)
        res["applies"] = rc == 0
        if rc == 0:
            rc, out = sh("go build ./...", scratch)
            res["builds"] = rc == 0
        if res.get("builds"):
            ids = sys.argv and [prop]
            extra = meta.get("verified_by_lead", {}).get("also_check", [])
            res["checks"] = {}
            for c in [prop] + extra:
                rc, out = sh("./check %s --tier quick" % c, ROOT, env={"VERIF_REPO": scratch}, timeout=7200)
                sigs = sorted({m.group(1) for m in re.finditer(r"VIOLATION sig=([^:\s]+)", out)})
                res["checks"][c] = {"rc": rc, "signatures": sigs[:6]}
        res["detected"] = any(v["rc"] == 1 for v in res.get("checks", {}).values())
    finally:
        shutil.rmtree(scratch, ignore_errors=True)
        h = hashlib.sha1(os.path.realpath(scratch).encode()).hexdigest()[:8]
        for b in glob.glob(os.path.join(ROOT, ".build", "*-alt-" + h)):
            shutil.rmtree(b, ignore_errors=True)
    meta.setdefault("verified_by_lead", {})["recheck"] = res
    json.dump(meta, open(mp, "w"), indent=1)
    print(name, json.dumps(res))
