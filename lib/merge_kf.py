#!/usr/bin/env python3
"""Merge known_findings.d/*.json fragments into /verif/known_findings.json (run by hand, never by a check).

Fragment format: {"findings": [ {id, property, signature, what, replay, status, fix_candidate, notes}... ],
                  "fixed":    [ {property, commit, what, line} ... ]}
"""
import glob, json, os, sys
root = os.path.dirname(os.path.dirname(os.path.abspath(__file__)))
out = {"findings": [], "fixed": []}
seen = set()
for p in sorted(glob.glob(os.path.join(root, "known_findings.d", "*.json"))):
    try:
        d = json.load(open(p))
    except ValueError as e:
        print("skip", p, e, file=sys.stderr)
        continue
    for f in d.get("findings", []):
        k = (f.get("property"), f.get("signature"))
        if k in seen:
            continue
        seen.add(k)
        out["findings"].append(f)
    for f in d.get("fixed", []):
        f.setdefault("line", "fixed: property=%s %s %s" % (f.get("property"), f.get("commit"), f.get("what")))
        out["fixed"].append(f)
tmp = os.path.join(root, "known_findings.json.tmp.%d" % os.getpid())
json.dump(out, open(tmp, "w"), indent=1, sort_keys=True)
os.replace(tmp, os.path.join(root, "known_findings.json"))
print("merged %d findings, %d fixed" % (len(out["findings"]), len(out["fixed"])))
