#!/bin/sh
# usage: lib/mutant.sh <name> <file-relative-to-repo> '<sed -E expr>' <check ids...> : apply a one-off mutation in a scratch copy, run checks against it
N=$1; F=$2; E=$3; shift 3
D=/tmp/mut-$N
rm -rf $D; cp -r /repo $D; rm -rf $D/.git
sed -E -i "$E" $D/$F
if diff -q /repo/$F $D/$F >/dev/null; then echo "MUTANT $N: sed changed nothing"; rm -rf $D; exit 2; fi
diff -u /repo/$F $D/$F | grep -E '^[+-][^+-]' | head -6
for id in "$@"; do
  VERIF_REPO=$D /verif/check $id 2>&1 | grep -E "^(OK|VIOLATION|INCONCLUSIVE|BUILD-FAIL)|VIOLATION sig=" | cut -c1-260 | head -4
done
H=$(python3 -c "import hashlib,os;print(hashlib.sha1(os.path.realpath('$D').encode()).hexdigest()[:8])")
rm -rf $D /verif/.build/*-alt-$H
