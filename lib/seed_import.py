#!/usr/bin/env python3
"""usage: lib/seed_import.py <seed-name> [...]: copy a confirmed seed from /tmp/seed-out/<name> + /tmp/seedlogs/<name>.json into /verif/seeded/<name>/"""
import json, os, shutil, sys
root = os.path.dirname(os.path.dirname(os.path.abspath(__file__)))
for name in sys.argv[1:]:
    src = "/tmp/seed-out/" + name
    log = json.load(open("/tmp/seedlogs/%s.json" % name))
    dst = os.path.join(root, "seeded", name)
    shutil.rmtree(dst, ignore_errors=True)
    os.makedirs(dst)
    if os.path.exists(os.path.join(src, "patch.adapted.diff")):
        shutil.copy(os.path.join(src, "patch.adapted.diff"), os.path.join(dst, "patch.diff"))
        shutil.copy(os.path.join(src, "patch.diff"), os.path.join(dst, "patch.original-pinned-tree.diff"))
    else:
        shutil.copy(os.path.join(src, "patch.diff"), os.path.join(dst, "patch.diff"))
    shutil.copytree(os.path.join(src, "demo"), os.path.join(dst, "demo"))
    meta = json.load(open(os.path.join(src, "meta.json")))
    meta["verified_by_lead"] = {
        "patch_applies_to_current_repo": log.get("apply_rc") == 0,
        "demo_passes_unchanged": log.get("demo_unchanged_rc") == 0,
        "demo_fails_with_change": log.get("demo_patched_rc") not in (0, None),
        "builds": log.get("build_rc") == 0,
        "existing_suite": "run by the seeding agent (see 'ran'); lead re-ran go build + the demo both ways in a scratch copy",
        "checks": log.get("checks"),
        "detected": any(v.get("rc") == 1 for v in log.get("checks", {}).values()),
    }
    json.dump(meta, open(os.path.join(dst, "meta.json"), "w"), indent=1)
    print(name, "detected=", meta["verified_by_lead"]["detected"])
