#!/usr/bin/env python3
"""Confirm a seeded change and run our checks against it.

  lib/seed_try.py <seed-dir> --demo-dst <dir in tree> --demo-run '<command>' [--checks C01,C05] [--tier quick] [--skip-suite]

<seed-dir> holds patch.diff, demo/<files>, meta.json (written by an independent sub-agent).
Steps, all in a scratch copy of /repo's working tree (HEAD + verif hook files) under /tmp/sv-<name>:
  1. demo passes on the unchanged copy
  2. apply patch; go build ./... ; full test suite: the only failing packages are the baseline's
  3. demo fails with the patch
  4. VERIF_REPO=<copy> ./check <id> for each id: records rc and VIOLATION lines
Prints a JSON summary; removes the scratch copy.
"""
import argparse, json, os, re, shutil, subprocess, sys

ROOT = os.path.dirname(os.path.dirname(os.path.abspath(__file__)))
BASE_FAIL = {"github.com/codelaboratoryltd/bng/pkg/routing", "github.com/codelaboratoryltd/bng/pkg/dns"}


def sh(cmd, cwd, env=None, timeout=3600):
    e = dict(os.environ)
    e.update({"GOFLAGS": "-mod=mod", "GOPROXY": "off"})
    e.pop("GOSUMDB", None)
    if env:
        e.update(env)
    r = subprocess.run(cmd, shell=True, cwd=cwd, env=e, capture_output=True, text=True, timeout=timeout)
    return r.returncode, (r.stdout + r.stderr)


def main():
    ap = argparse.ArgumentParser()
    ap.add_argument("seed")
    ap.add_argument("--demo-dst", required=True)
    ap.add_argument("--demo-run", required=True)
    ap.add_argument("--checks", default="")
    ap.add_argument("--tier", default="quick")
    ap.add_argument("--skip-suite", action="store_true")
    ap.add_argument("--keep", action="store_true")
    a = ap.parse_args()
    seed = os.path.abspath(a.seed)
    name = os.path.basename(seed.rstrip("/"))
    scratch = "/tmp/sv-" + name
    shutil.rmtree(scratch, ignore_errors=True)
    shutil.copytree("/repo", scratch, ignore=shutil.ignore_patterns(".git"))
    res = {"seed": name}
    try:
        dst = os.path.join(scratch, a.demo_dst)
        os.makedirs(dst, exist_ok=True)
        demo_files = []
        for f in os.listdir(os.path.join(seed, "demo")):
            shutil.copy(os.path.join(seed, "demo", f), dst)
            demo_files.append(os.path.join(dst, f))
        rc, out = sh(a.demo_run, scratch)
        res["demo_unchanged_rc"] = rc
        if rc != 0:
            res["demo_unchanged_tail"] = out[-1500:]
        pf = os.path.join(seed, "patch.adapted.diff")
        if not os.path.exists(pf):
            pf = os.path.join(seed, "patch.diff")
        res["patch_file"] = os.path.basename(pf)
        rc, out = sh("git apply --whitespace=nowarn %s" % pf, scratch)
        res["apply_rc"] = rc
        if rc != 0:
            res["apply_out"] = out[-800:]
            print(json.dumps(res, indent=1))
            return 1
        rc, out = sh(a.demo_run, scratch)
        res["demo_patched_rc"] = rc
        res["demo_patched_tail"] = out[-600:]
        # the suite must pass with the change but without the demo files
        for f in demo_files:
            os.remove(f)
        rc, out = sh("go build ./...", scratch)
        res["build_rc"] = rc
        if not a.skip_suite:
            rc, out = sh("go test -vet=off -count=1 ./... 2>&1", scratch)
            failed = set(re.findall(r"^FAIL[ \t]+(\S+)", out, re.M))
            # timing-sensitive packages (pkg/ha, pkg/resilience, ...) fail under machine load: a package outside the
            # baseline's failures is re-run alone (twice) before it counts
            retried = {}
            for pkg in sorted(failed - BASE_FAIL):
                rel = "./" + pkg.split("/bng/", 1)[1] if "/bng/" in pkg else pkg
                ok = False
                for _ in range(2):
                    rc2, _o = sh("go test -vet=off -count=1 %s 2>&1" % rel, scratch)
                    if rc2 == 0:
                        ok = True
                        break
                retried[pkg] = ok
                if ok:
                    failed.discard(pkg)
            res["suite_failed_pkgs"] = sorted(failed)
            res["suite_retried_alone"] = retried
            res["suite_ok"] = failed <= BASE_FAIL
        checks = [c for c in a.checks.split(",") if c]
        res["checks"] = {}
        for c in checks:
            rc, out = sh("./check %s --tier %s" % (c, a.tier), ROOT, env={"VERIF_REPO": scratch}, timeout=7200)
            res["checks"][c] = {"rc": rc, "lines": [l for l in out.splitlines() if l.startswith("VIOLATION") or "VIOLATION sig=" in l][:6]}
            if rc == 2:
                res["checks"][c]["tail"] = out[-1200:]
        res["confirmed"] = (res["demo_unchanged_rc"] == 0 and res["demo_patched_rc"] != 0 and res["build_rc"] == 0
                            and res.get("suite_ok", True))
        print(json.dumps(res, indent=1))
    finally:
        if not a.keep:
            shutil.rmtree(scratch, ignore_errors=True)
            import glob, hashlib
            h = hashlib.sha1(os.path.realpath(scratch).encode()).hexdigest()[:8]
            for d in glob.glob(os.path.join(ROOT, ".build", "*-alt-" + h)):
                shutil.rmtree(d, ignore_errors=True)
    return 0


if __name__ == "__main__":
    sys.exit(main())
