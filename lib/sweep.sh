#!/bin/sh
# usage: lib/sweep.sh "<ids>" "<seeds>" [tier]  : run every check at every seed, print one line each, keep logs of non-OK runs in .build/sweep/
cd "$(dirname "$0")/.." || exit 1
mkdir -p .build/sweep
T=${3:-quick}
for s in $2; do for id in $1; do
  VERIF_SEED=$s ./check $id --tier $T > .build/sweep/$id.$s.$T.log 2>&1; rc=$?
  l=$(grep -E "^(OK|VIOLATION|INCONCLUSIVE|BUILD-FAIL)" .build/sweep/$id.$s.$T.log | head -2 | tr '\n' ' ')
  echo "$id seed=$s rc=$rc $l"
  [ $rc -eq 0 ] && rm -f .build/sweep/$id.$s.$T.log
done; done
