#!/usr/bin/env python3
"""usage: lib/mark_fixed.py Cxx KF-id=commit [KF-id=commit ...] : move findings to 'fixed' in known_findings.d/Cxx.json and re-merge."""
import json, sys, subprocess, os
root = os.path.dirname(os.path.dirname(os.path.abspath(__file__)))
pid = sys.argv[1]
m = dict(a.split("=") for a in sys.argv[2:])
p = os.path.join(root, "known_findings.d", pid + ".json")
d = json.load(open(p))
keep = []
for f in d["findings"]:
    if f["id"] in m:
        c = m[f["id"]]
        d.setdefault("fixed", []).append({"property": f["property"], "commit": c, "what": f["what"], "id": f["id"],
                                          "signature": f["signature"], "replay": f.get("replay"),
                                          "line": "fixed: property=%s %s %s" % (f["property"], c, f["what"])})
    else:
        keep.append(f)
d["findings"] = keep
json.dump(d, open(p, "w"), indent=1)
subprocess.run([sys.executable, os.path.join(root, "lib", "merge_kf.py")])
