#!/bin/sh
# usage: lib/tryfix.sh <patch> "<go test pkgs>" <check ids...>   : apply in /repo working tree, build, test, run checks (no commit)
P=$(realpath "$1"); PK="$2"; shift 2
cd /repo || exit 1
git apply --check "$P" || { echo "patch does not apply"; exit 1; }
git apply "$P"
export GOFLAGS=-mod=mod GOPROXY=off
go build ./... || { echo BUILD FAILED; exit 1; }
go test -mod=mod -vet=off -count=1 $PK 2>&1 | tail -8
cd /verif
for id in "$@"; do
  ./check $id 2>&1 | grep -E "^(OK|VIOL|INCON|BUILD|---)|hit [1-9][0-9]* times" | sed 's/property=C[0-9]* .*\[KF/[KF/' | cut -c1-260
done
git -C /repo status --short | grep -v '^??'
git -C /repo checkout go.mod go.sum 2>/dev/null
