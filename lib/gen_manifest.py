#!/usr/bin/env python3
"""Regenerate MANIFEST.json from lib/props.py (claimed checks) + lib/manifest_static.json."""
import json, os, subprocess, sys
root = os.path.dirname(os.path.dirname(os.path.abspath(__file__)))
sys.path.insert(0, os.path.join(root, "lib"))
from props import PROPS
static = json.load(open(os.path.join(root, "lib", "manifest_static.json")))
ids = [json.loads(l)["id"] for l in open(os.path.join(root, "properties.jsonl"))]
checks = []
na = []
for pid in ids:
    c = PROPS.get(pid)
    if pid in static.get("unclaimed", {}) or not c or not c.get("claimed", True):
        na.append({"property_id": pid, "reason": static.get("unclaimed", {}).get(pid) or (c or {}).get("na_reason", static["na_default"])})
        continue
    checks.append({
        "property_id": pid,
        "quick_cmd": "./check %s --tier quick" % pid,
        "thorough_cmd": "./check %s --tier thorough" % pid,
        "evidence_file": "/verif/evidence/%s.json" % pid,
        "replay_cmd_template": "./check %s --replay {path}" % pid,
        "engine": "rapid-harness",
        "level_claimed": {"category": c["level"], "text": c["level_text"], "design_ref": c.get("design_ref", "DESIGN.md section 2, " + pid)},
        "level_note": c["level_note"],
        "technique": c["technique"],
    })
m = {
    "version": 1,
    "setup_cmd": "./setup.sh",
    "hooks": static["hooks"],
    "engines": static["engines"],
    "checks": checks,
    "not_applicable": na,
    "notes": static["notes"],
}
try:
    commits = subprocess.run(["git", "-C", "/repo", "log", "--format=%H %s"], capture_output=True, text=True).stdout.splitlines()
    m["hooks"]["source_commits"] = [l.split()[0] for l in commits if " verif hook" in l or l.split(" ", 1)[1].startswith("verif:")]
except Exception:
    pass
json.dump(m, open(os.path.join(root, "MANIFEST.json"), "w"), indent=1)
print("claimed:", [c["property_id"] for c in checks]); print("not_applicable:", [n["property_id"] for n in na])
