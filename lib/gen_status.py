#!/usr/bin/env python3
"""Regenerate the generated tables of DESIGN.md section 7 (between the BEGIN/END GENERATED markers) from
MANIFEST.json, evidence/*.json, known_findings.json and seeded/*/meta.json."""
import glob, json, os, re, subprocess
root = os.path.dirname(os.path.dirname(os.path.abspath(__file__)))
J = lambda p: json.load(open(os.path.join(root, p)))
man = J("MANIFEST.json")
kf = J("known_findings.json")
out = []
w = out.append

w("### 7.1 Checks (generated)\n")
w("| id | claimed | level | quick: evaluations / distinct non-trivial / wall s | open findings | fixed findings |")
w("|---|---|---|---|---|---|")
claimed = {c["property_id"]: c for c in man["checks"]}
na = {n["property_id"]: n["reason"] for n in man.get("not_applicable", [])}
for i in range(1, 21):
    pid = "C%02d" % i
    ev = None
    try:
        ev = J("evidence/%s.json" % pid)
    except Exception:
        pass
    nopen = sum(1 for f in kf["findings"] if f["property"] == pid)
    nfix = sum(1 for f in kf["fixed"] if f["property"] == pid)
    if pid in claimed:
        cov = ev["coverage"] if ev else {}
        w("| %s | yes | %s | %s / %s / %s (%s tier) | %d | %d |" % (pid, claimed[pid]["level_claimed"]["category"],
          cov.get("evaluations", "?"), cov.get("distinct_nontrivial", "?"), ev.get("wall_s", "?") if ev else "?", ev.get("tier", "?") if ev else "?", nopen, nfix))
    else:
        w("| %s | no | - | %s | %d | %d |" % (pid, na.get(pid, ""), nopen, nfix))

w("\n### 7.2 Genuine defects repaired in /repo (`fix:` commits; generated from known_findings.json `fixed`)\n")
bycommit = {}
for f in kf["fixed"]:
    bycommit.setdefault(f["commit"], []).append(f)
subj = {}
for l in subprocess.run(["git", "-C", "/repo", "log", "--format=%h %s"], capture_output=True, text=True).stdout.splitlines():
    h, s = l.split(" ", 1)
    subj[h[:7]] = s
w("| commit | subject | signatures it removed |")
w("|---|---|---|")
order = [h for h in subj if any(h.startswith(c[:7]) or c.startswith(h) for c in bycommit)]
for h in order:
    fs = [f for c, v in bycommit.items() if c[:7] == h[:7] for f in v]
    sigs = sorted({f.get("signature") or "" for f in fs})
    w("| %s | %s | %s |" % (h, subj[h].replace("|", "/"), "<br>".join("`%s`" % s for s in sigs if s)))

w("\n### 7.3 Genuine defects recorded, not repaired (known_findings.json `findings`; generated)\n")
w("| id | signature | what fails | why not repaired |")
w("|---|---|---|---|")
for f in kf["findings"]:
    w("| %s | `%s` | %s | %s |" % (f["id"], f["signature"], f["what"].replace("|", "/").replace("\n", " ")[:420],
                                  (f.get("notes") or "").replace("|", "/").replace("\n", " ")[:420]))

w("\n### 7.4 Seeded changes (written by independent sub-agents from the property text only; generated from seeded/*/meta.json)\n")
w("| seed | property | change | needs to manifest | caught by (quick tier) |")
w("|---|---|---|---|---|")
for p in sorted(glob.glob(os.path.join(root, "seeded", "*", "meta.json"))):
    m = json.load(open(p))
    name = os.path.basename(os.path.dirname(p))
    v = m.get("verified_by_lead", {})
    caught = []
    for cid, r in (v.get("checks") or {}).items():
        if r.get("rc") == 1:
            sigs = sorted({mm.group(1) for l in r.get("lines", []) for mm in [re.search(r"sig=([^:\s]+)", l)] if mm})
            caught.append("%s: %s" % (cid, ", ".join("`%s`" % s for s in sigs[:3]) or "VIOLATION"))
        elif r.get("rc") == 0:
            caught.append("%s: not caught" % cid)
        else:
            caught.append("%s: rc=%s" % (cid, r.get("rc")))
    if v.get("caught_after_strengthening"):
        caught.append("after strengthening: " + v["caught_after_strengthening"])
    rc = v.get("recheck") or {}
    if rc:
        sigs = sorted({sg for c in (rc.get("checks") or {}).values() for sg in c.get("signatures", [])})
        if rc.get("detected"):
            caught.append("re-checked at %s: caught (%s)" % (rc.get("repo_head"), ", ".join("`%s`" % x for x in sigs[:2]) or "VIOLATION"))
        elif not v.get("neutralised"):
            caught.append("re-checked at %s: NOT caught" % rc.get("repo_head"))
    if v.get("adapted"):
        caught.append("adapted: " + v["adapted"])
    if v.get("neutralised"):
        caught.append("neutralised: " + v["neutralised"])
    w("| %s | %s | %s | %s | %s |" % (name, m.get("property"), (m.get("title") or "").replace("|", "/")[:300],
                                     (m.get("needs_to_manifest") or "").replace("|", "/").replace("\n", " ")[:300], "<br>".join(caught) or "?"))

# summary of the seeding experiment
tot = caught_first = after = notc = neutral = 0
for p in sorted(glob.glob(os.path.join(root, "seeded", "*", "meta.json"))):
    m = json.load(open(p)); v = m.get("verified_by_lead", {})
    tot += 1
    rc = v.get("recheck") or {}
    now = rc.get("detected") if rc else v.get("detected")
    if v.get("neutralised"):
        neutral += 1
    elif v.get("caught_after_strengthening"):
        after += 1
    elif now:
        caught_first += 1
    else:
        notc += 1
w("\nSeeded changes kept: %d. Caught by the check as it stood when the seed arrived: %d. Missed at first and caught after the check was strengthened (see the note in each row): %d. Neutralised by a later repair of the repository (the seeded change no longer breaks the property on the current tree): %d. Not caught at the time of writing: %d." % (tot, caught_first, after, neutral, notc))

text = "\n".join(out) + "\n"
dp = os.path.join(root, "DESIGN.md")
s = open(dp).read()
b, e = "<!-- BEGIN GENERATED STATUS -->", "<!-- END GENERATED STATUS -->"
if b in s:
    s = s[:s.index(b) + len(b)] + "\n" + text + s[s.index(e):]
    open(dp, "w").write(s)
    print("DESIGN.md section 7 tables regenerated")
else:
    print("markers not found in DESIGN.md")
